/-
  C14 — selected sensors are always the leading part of the ranking; setters are last-wins and
  never touch the ranking.  Property theorems only (model: Model/Sspor.lean).  Core Lean.
-/
import PsVerif.Model.Sspor
namespace PsVerif

/-- **C14.** The selected sensors are the first `n_sensors` entries of the ranking. -/
theorem selected_eq_take (st : Sspor) (r : List Nat) (k : Nat) (hr : st.ranking = some r)
    (hk : st.nSensors = some k) : st.selected = .ok (r.take k) := by
  simp [Sspor.selected, hr, hk, selectLead]

/-- **C14.** A setter call never changes the ranking (nor the basis, the basis matrix or the mode
settings) – whatever value it is given, accepted or rejected. -/
theorem setN_preserves_ranking (st : Sspor) (v : PyCount) :
    (st.setN v).1.ranking = st.ranking ∧ (st.setN v).1.bm = st.bm ∧
      (st.setN v).1.basis = st.basis ∧ (st.setN v).1.nBasisModes = st.nBasisModes := by
  unfold Sspor.setN
  split
  · simp
  · split
    · simp
    · split
      · simp
      · split <;> simp

/-- a setter call is accepted exactly for an integer count in `1 .. n_features` on a fitted model -/
theorem setN_ok_iff (st : Sspor) (v : PyCount) (r : List Nat) (hr : st.ranking = some r) :
    (st.setN v).2 = none ↔ ∃ k : Nat, v = .int k ∧ 0 < k ∧ k ≤ r.length := by
  unfold Sspor.setN
  rw [hr]
  cases v with
  | other => simp
  | int z =>
    simp only []
    split
    · rename_i h
      simp only [reduceCtorEq, PyCount.int.injEq, false_iff, not_exists, not_and]
      intro k hk hpos; omega
    · split
      · rename_i h1 h2
        simp only [reduceCtorEq, PyCount.int.injEq, false_iff, not_exists, not_and]
        intro k hk hpos; omega
      · rename_i h1 h2
        simp only [PyCount.int.injEq, true_iff]
        exact ⟨z.toNat, by omega, by omega, by omega⟩

/-- an accepted setter sets the count to the given value -/
theorem setN_ok_value (st : Sspor) (k : Nat) (r : List Nat) (hr : st.ranking = some r)
    (h0 : 0 < k) (hk : k ≤ r.length) :
    (st.setN (.int k)).2 = none ∧ (st.setN (.int k)).1.nSensors = some k := by
  unfold Sspor.setN
  rw [hr]
  have h1 : k ≠ 0 := by omega
  have h2 : ¬ ((k : Int) > (r.length : Int)) := by omega
  simp [h1, h2]

/-- **C14/C19.** A rejected setter call leaves the whole model unchanged. -/
theorem setN_rejected_unchanged (st : Sspor) (v : PyCount) (h : (st.setN v).2 ≠ none) :
    (st.setN v).1 = st := by
  grind [Sspor.setN]

/-- value chosen by the last accepted call of a setter sequence (none = no call was accepted) -/
def lastAccepted (n : Nat) : List PyCount → Option Nat
  | [] => none
  | v :: vs =>
    match lastAccepted n vs with
    | some k => some k
    | none => match v with
      | .int z => if 0 < z ∧ z ≤ n then some z.toNat else none
      | .other => none

/-- what a setter call does to a fitted model, in one line -/
theorem setN_fitted (st : Sspor) (v : PyCount) (r : List Nat) (hr : st.ranking = some r) :
    (st.setN v).1 = match lastAccepted r.length [v] with
      | some k => { st with nSensors := some k, defaulted := false }
      | none => st := by
  unfold Sspor.setN lastAccepted lastAccepted
  rw [hr]
  cases v with
  | other => simp
  | int z =>
    simp only []
    by_cases h1 : z ≤ 0
    · have : ¬ (0 < z ∧ z ≤ (r.length : Int)) := by omega
      simp [h1, this]
    · by_cases h2 : z > (r.length : Int)
      · have : ¬ (0 < z ∧ z ≤ (r.length : Int)) := by omega
        simp [h1, h2, this]
      · have : (0 < z ∧ z ≤ (r.length : Int)) := by omega
        simp [h1, h2, this]

theorem lastAccepted_cons_some {n : Nat} {v : PyCount} {vs : List PyCount} {k : Nat}
    (h : lastAccepted n vs = some k) : lastAccepted n (v :: vs) = some k := by
  simp [lastAccepted, h]

theorem lastAccepted_cons_none {n : Nat} {v : PyCount} {vs : List PyCount}
    (h : lastAccepted n vs = none) : lastAccepted n (v :: vs) = lastAccepted n [v] := by
  simp [lastAccepted, h]

/-- **C14 (last wins).** After any sequence of setter calls (valid and invalid values, in any
order) a fitted model is in the state reached by the single last accepted call – or unchanged if
none was accepted. -/
theorem setters_last_wins (st : Sspor) (r : List Nat) (hr : st.ranking = some r) (vs : List PyCount) :
    vs.foldl (fun s v => (s.setN v).1) st =
      match lastAccepted r.length vs with
      | some k => { st with nSensors := some k, defaulted := false }
      | none => st := by
  induction vs generalizing st with
  | nil => simp [lastAccepted]
  | cons v vs ih =>
    rw [List.foldl_cons]
    have hr' : (st.setN v).1.ranking = some r := by rw [(setN_preserves_ranking st v).1, hr]
    rw [ih (st.setN v).1 hr']
    rw [setN_fitted st v r hr]
    cases hl : lastAccepted r.length vs with
    | some k =>
      rw [lastAccepted_cons_some hl]
      cases lastAccepted r.length [v] <;> rfl
    | none =>
      rw [lastAccepted_cons_none hl]

/-- hence the observable state equals that of a model which only ever received the final value -/
theorem setters_observe_last (st : Sspor) (r : List Nat) (hr : st.ranking = some r)
    (vs : List PyCount) (k : Nat) (hk : lastAccepted r.length vs = some k) :
    (vs.foldl (fun s v => (s.setN v).1) st).observe =
      ({ st with nSensors := some k, defaulted := false } : Sspor).observe := by
  rw [setters_last_wins st r hr vs, hk]

/-- the matrix representation of a basis has one row per feature of the data it was fitted on
(every basis kind, every requested mode count) -/
theorem basis_fit_rep_rows (b b' : BasisSt) (ne nf : Nat) (k : Option Nat) (shape : Nat × Nat)
    (hb : b.fit ne nf = (b', none)) (hrep : b'.rep k = .ok shape) : shape.1 = nf := by
  grind [BasisSt.fit, BasisSt.rep]

/-- **C14.** `SSPOR(n_sensors=k).fit(x)` and `SSPOR().fit(x); set_number_of_sensors(k)` are
observably the same model (same data, same optimizer ranking). -/
theorem ctor_fit_eq_fit_set (b : BasisSt) (k ne nf : Nat) (o : List Nat) (hk : 0 < k)
    (ho : o.length = nf) (st₁ st₂ : Sspor)
    (h₁ : Sspor.init b (some (.int k)) = some st₁) (h₂ : Sspor.init b none = some st₂)
    (hfit : (st₁.fit ne nf false o).2 = none) :
    (st₁.fit ne nf false o).1.observe = ((st₂.fit ne nf false o).1.setN (.int k)).1.observe := by
  have hkz : ((k : Int) > 0) := by omega
  simp only [Sspor.init, hkz, if_true, Option.some.injEq] at h₁ h₂
  subst h₁; subst h₂
  unfold Sspor.fit at hfit ⊢
  simp only [Bool.false_eq_true, if_false] at hfit ⊢
  cases hb : b.fit ne nf with
  | mk b' e1 =>
    simp only [hb] at hfit ⊢
    cases e1 with
    | some e => simp at hfit
    | none =>
      simp only [] at hfit ⊢
      cases hrep : b'.rep none with
      | error e => simp [hrep] at hfit
      | ok shape =>
        simp only [hrep] at hfit ⊢
        simp only [Int.toNat_natCast] at hfit ⊢
        have hshape : shape.1 = nf := basis_fit_rep_rows b b' ne nf none shape hb hrep
        by_cases hgt : k > shape.1
        · simp [hgt] at hfit
        · simp only [hgt, if_false]
          unfold Sspor.setN
          simp only []
          have h1 : k ≠ 0 := by omega
          have h2 : ¬ ((k : Int) > (o.length : Int)) := by rw [ho, ← hshape]; omega
          simp [h1, h2, Sspor.observe, Sspor.selected]

example : lastAccepted 5 [.int 3, .other, .int 0, .int 9, .int 2, .int (-1)] = some 2 := by decide

end PsVerif
