/-
  C12 — shape constraints return exactly the sensors on the constrained side.
  Property theorems only (model: Model/Geometry.lean).
-/
import PsVerif.Model.Geometry
import PsVerif.Model.GeomExpr
import Mathlib.Algebra.Order.Field.Rat
import Mathlib.Tactic.Ring
import Mathlib.Tactic.Linarith
import Mathlib.Tactic.FieldSimp
namespace PsVerif

/-- **C12.** The constrained indices are exactly the ranked sensors whose coordinates lie on the
constrained side … -/
theorem constraintIndices_mem (f : Pt → Bool) (coord : Nat → Pt) (rk : List Nat) (s : Nat) :
    s ∈ constraintIndices f coord rk ↔ s ∈ rk ∧ f (coord s) = true := by
  simp [constraintIndices, List.mem_filter]

/-- … in the same order as the input ranking -/
theorem constraintIndices_sublist (f : Pt → Bool) (coord : Nat → Pt) (rk : List Nat) :
    (constraintIndices f coord rk).Sublist rk := by
  exact List.filter_sublist

/-- **C12.** For every shape the `'in'` and `'out'` answers partition the sensors. -/
theorem in_out_partition (sh : Shape) (coord : Nat → Pt) (rk : List Nat) :
    (constraintIndices (sh.constrained .inside) coord rk ++
      constraintIndices (sh.constrained .outside) coord rk).Perm rk ∧
    ∀ s, ¬ (s ∈ constraintIndices (sh.constrained .inside) coord rk ∧
            s ∈ constraintIndices (sh.constrained .outside) coord rk) := by
  refine ⟨?_, ?_⟩
  · have h := List.filter_append_perm (fun s => sh.contains (coord s)) rk
    simpa [constraintIndices, Shape.constrained] using h
  · intro s hs
    simp only [constraintIndices, Shape.constrained, List.mem_filter] at hs
    obtain ⟨⟨_, h1⟩, ⟨_, h2⟩⟩ := hs
    simp [h1] at h2

/-- circle, `loc='in'`: the closed disc -/
theorem circle_in_iff (cx cy r : Rat) (p : Pt) :
    (Shape.circle cx cy r).constrained .inside p = true ↔
      (p.x - cx) * (p.x - cx) + (p.y - cy) * (p.y - cy) ≤ r * r := by
  simp only [Shape.constrained, Shape.contains, decide_eq_true_eq]
  simp only [sqr]

/-- circle, `loc='out'`: strictly outside the disc -/
theorem circle_out_iff (cx cy r : Rat) (p : Pt) :
    (Shape.circle cx cy r).constrained .outside p = true ↔
      r * r < (p.x - cx) * (p.x - cx) + (p.y - cy) * (p.y - cy) := by
  simp only [Shape.constrained, Shape.contains, Bool.not_eq_true', decide_eq_false_iff_not, not_le]
  simp only [sqr]

/-- cylinder along the z axis, `loc='in'`: closed disc in (x, y) and closed interval in z -/
theorem cylinderZ_in_iff (cx cy cz r h : Rat) (p : Pt) :
    (Shape.cylinder cx cy cz r h .Z).constrained .inside p = true ↔
      ((p.x - cx) * (p.x - cx) + (p.y - cy) * (p.y - cy) ≤ r * r ∧ cz - h / 2 ≤ p.z ∧ p.z ≤ cz + h / 2) := by
  simp only [Shape.constrained, Shape.contains, Bool.and_eq_true, decide_eq_true_eq, and_assoc]
  simp only [sqr]

/-- parabola, `loc='in'`: `a (x − h)² ≤ y − k` -/
theorem parabola_in_iff (h k a : Rat) (p : Pt) :
    (Shape.parabola h k a).constrained .inside p = true ↔ a * ((p.x - h) * (p.x - h)) ≤ p.y - k := by
  simp only [Shape.constrained, Shape.contains, decide_eq_true_eq]
  simp only [sqr]

/-- ellipse with an unrotated frame (`c = 1, s = 0`), `loc='in'`: `(dx/a)² + (dy/b)² ≤ 1` with the
HALF axes `a = width/2`, `b = height/2` -/
theorem ellipse_axis_aligned_in_iff (cx cy w h : Rat) (hw : w ≠ 0) (hh : h ≠ 0) (p : Pt) :
    (Shape.ellipse cx cy w h 1 0).constrained .inside p = true ↔
      (p.x - cx) * (p.x - cx) / ((w / 2) * (w / 2)) + (p.y - cy) * (p.y - cy) / ((h / 2) * (h / 2)) ≤ 1 := by
  simp only [Shape.constrained, Shape.contains, decide_eq_true_eq]
  simp only [sqr, mul_one, mul_zero, add_zero, zero_add]

/-- **C12 (Line).** Constrained = strictly right of the directed line from `(x1, y1)` to `(x2, y2)`:
the cross product of the direction with the vector to the point is negative. -/
theorem line_strictly_right (x1 x2 y1 y2 : Rat) (p : Pt) :
    lineConstrained x1 x2 y1 y2 p = true ↔ (x2 - x1) * (p.y - y1) - (y2 - y1) * (p.x - x1) < 0 := by
  unfold lineConstrained
  simp only [Bool.not_eq_true', decide_eq_false_iff_not, ge_iff_le, not_le]
  have e : (p.y - y1) * (x2 - x1) - (y2 - y1) * (p.x - x1) = (x2 - x1) * (p.y - y1) - (y2 - y1) * (p.x - x1) := by ring
  rw [e]

/-- **C12 (grid coordinates).** `x = index mod side`, `y = index div side`, and this is inverse to
the F-order flattening. -/
theorem gridPt_spec (side idx : Nat) (hs : 0 < side) :
    (gridPt side idx).x = ((idx % side : Nat) : Rat) ∧ (gridPt side idx).y = ((idx / side : Nat) : Rat) ∧
      ravelF side (idx % side) (idx / side) = idx := by
  refine ⟨rfl, rfl, ?_⟩
  unfold ravelF
  rw [Nat.mul_comm]
  exact Nat.mod_add_div idx side

/-- the even–odd rule on an axis-aligned rectangle: inside = `x0 < x ≤ x1 ∧ y0 < y ≤ y1`
(points on the lower/left edges are out, on the upper/right edges in – the property leaves edge
points unspecified) -/
theorem polygon_rectangle (x0 x1 y0 y1 x y : Rat) (hx : x0 < x1) (hy : y0 < y1) :
    polygonIn [(x0, y0), (x1, y0), (x1, y1), (x0, y1)] x y = true ↔
      (x0 < x ∧ x ≤ x1 ∧ y0 < y ∧ y ≤ y1) := by
  have e1 : x1 + (y - y0) / (y1 - y0) * (x1 - x1) = x1 := by rw [sub_self, mul_zero, add_zero]
  have e2 : x0 + (y - y1) / (y0 - y1) * (x0 - x0) = x0 := by rw [sub_self, mul_zero, add_zero]
  have hr : List.range 4 = [0, 1, 2, 3] := by decide
  simp only [polygonIn, List.length_cons, List.length_nil, Nat.zero_add, Nat.reduceAdd, hr,
    List.foldl_cons, List.foldl_nil, List.getD_cons_zero, List.getD_cons_succ, Nat.reduceMod,
    edgeCrosses, e1, e2]
  have n1 : y ≤ y0 ↔ ¬ y0 < y := not_lt.symm
  have n2 : y1 < y ↔ ¬ y ≤ y1 := not_le.symm
  have n4 : x1 < x ↔ ¬ x ≤ x1 := not_le.symm
  simp only [ge_iff_le, n1, n2, n4]
  by_cases h1 : y0 < y <;> by_cases h2 : y ≤ y1 <;> by_cases h3 : x0 < x <;> by_cases h4 : x ≤ x1 <;>
    first
    | (exfalso; linarith)
    | simp [h1, h2, h3, h4]

/-! ### lifting the regenerated obligations (`Generated/Shapes.lean`, rewritten from the source on every C12 run)

`g` is the expression `constraint_function` evaluates, as the translator read it off the current source; the generated
theorem `shape_<Class>` is the hypothesis `h`.  Then what `get_constraint_indices` returns (`senID[~g]`, in ranking order) is
the model's answer – so every theorem above speaks about the code as it is written today. -/

/-- **C12 (translation tie).** -/
theorem translated_shape_indices (g : GB) (env : ShEnv) (sh : Shape) (loc : Loc)
    (h : ∀ p, g.holds env p ↔ specG sh loc p = true) (coord : Nat → Pt) (rk : List Nat) :
    constraintIndices (fun p => !(g.eval env p)) coord rk = constraintIndices (sh.constrained loc) coord rk := by
  unfold constraintIndices
  apply List.filter_congr
  intro s _
  have h1 := h (coord s)
  rw [← GB.eval_iff] at h1
  unfold specG at h1
  cases hg : g.eval env (coord s) <;> cases hc : sh.constrained loc (coord s) <;> simp_all

/-- the same for `Line` (no `loc`) -/
theorem translated_line_indices (g : GB) (env : ShEnv)
    (h : ∀ p, g.holds env p ↔ specLineG env p = true) (coord : Nat → Pt) (rk : List Nat) :
    constraintIndices (fun p => !(g.eval env p)) coord rk =
      constraintIndices (lineConstrained (env "x1") (env "x2") (env "y1") (env "y2")) coord rk := by
  unfold constraintIndices
  apply List.filter_congr
  intro s _
  have h1 := h (coord s)
  rw [← GB.eval_iff] at h1
  unfold specLineG at h1
  cases hg : g.eval env (coord s) <;>
    cases hc : lineConstrained (env "x1") (env "x2") (env "y1") (env "y2") (coord s) <;> simp_all

/-- environment of one polygon edge -/
def edgeEnv (a b : Rat × Rat) : ShEnv := fun n =>
  if n = "x1" then a.1 else if n = "y1" then a.2 else if n = "x2" then b.1 else if n = "y2" then b.2 else 0

/-- **C12 (translation tie, Polygon).** If the regenerated edge condition is the model's `edgeCrosses`
(`shape_Polygon_edge`), the loop the translator recognised computes the model's `polygonIn`. -/
theorem translated_polygon (edge : GB)
    (h : ∀ env p, edge.holds env p ↔ specEdge env p = true) (vs : List (Rat × Rat)) (x y : Rat) :
    polygonLoop (fun x y a b => edge.eval (edgeEnv a b) { x := x, y := y }) vs x y = polygonIn vs x y := by
  have he : (fun (x y : Rat) (a b : Rat × Rat) => edge.eval (edgeEnv a b) { x := x, y := y }) = edgeCrosses := by
    funext x y a b
    have h1 := h (edgeEnv a b) { x := x, y := y }
    rw [← GB.eval_iff] at h1
    have h2 : specEdge (edgeEnv a b) { x := x, y := y } = edgeCrosses x y a b := by
      simp [specEdge, edgeEnv]
    rw [h2] at h1
    cases hg : edge.eval (edgeEnv a b) { x := x, y := y } <;> cases hc : edgeCrosses x y a b <;> simp_all
  rw [he]
  rfl

example : constraintIndices ((Shape.circle 1 1 1).constrained .inside) (gridPt 3) [8, 7, 6, 5, 4, 3, 2, 1, 0]
    = [7, 5, 4, 3, 1] := by decide +kernel

end PsVerif
