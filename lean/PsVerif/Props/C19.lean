/-
  C19 — invalid requests are rejected and rejected setters change nothing.
  Property theorems only (models: Model/Validation.lean, Model/Sspor.lean, Model/Sspoc.lean).
  The value quantifiers range over ALL integers / all members of each invalid class.
-/
import PsVerif.Model.Validation
import PsVerif.Model.Sspoc
import PsVerif.Model.GuardSpecs
namespace PsVerif

/-- a count is acceptable to SSPOR iff it is a (builtin or numpy) integer that is positive -/
def PyArg.posInt (v : PyArg) : Prop := ∃ z : Int, 0 < z ∧ v.toCount = .int z

/-- **C19 (SSPOR constructor).** Non-positive and non-integer `n_sensors` are rejected (ValueError);
positive integers and None are accepted. -/
theorem sspor_ctor_spec (b : BasisSt) (v : PyArg) :
    (Sspor.init b (some v.toCount)).isSome ↔ v.posInt := by
  unfold PyArg.posInt
  cases v <;> simp [PyArg.toCount, Sspor.init]
  all_goals first
    | done
    | (constructor
       · intro h; split at h <;> simp_all
       · intro h; simp_all)

/-- **C19 (SSPOR setter).** On a fitted model every value outside `1 .. n_features` – zero, negative,
too large, non-integer – raises ValueError and leaves the whole model unchanged. -/
theorem sspor_set_invalid (st : Sspor) (r : List Nat) (hr : st.ranking = some r) (v : PyCount)
    (hinv : ¬ ∃ k : Nat, v = .int k ∧ 0 < k ∧ k ≤ r.length) :
    st.setN v = (st, some .valueError) := by
  unfold Sspor.setN
  rw [hr]
  cases v with
  | other => rfl
  | int z =>
    simp only
    split
    · rfl
    · split
      · rfl
      · exfalso
        apply hinv
        refine ⟨z.toNat, ?_, ?_, ?_⟩
        · congr 1; omega
        · omega
        · omega

/-- **C19 (unfitted SSPOR).** The setter raises NotFittedError and changes nothing. -/
theorem sspor_set_unfitted (st : Sspor) (v : PyCount) (h : st.ranking = none) :
    st.setN v = (st, some .notFitted) := by
  unfold Sspor.setN
  rw [h]

theorem sspor_selected_unfitted (st : Sspor) (h : st.ranking = none) :
    st.selected = .error .notFitted ∧ st.allSensors = .error .notFitted := by
  unfold Sspor.selected Sspor.allSensors
  rw [h]
  exact ⟨rfl, rfl⟩

/-- **C19 (SSPOR.update_n_basis_modes).** Non-positive / non-integer mode counts: ValueError, nothing
changed; more modes than the basis holds without data: ValueError, nothing changed; more modes than
examples: ValueError, nothing changed. -/
theorem sspor_update_invalid (st : Sspor) (v : PyCount) (x : Option (Nat × Nat)) (o : List Nat)
    (hv : v = .other ∨ ∃ z : Int, v = .int z ∧ z ≤ 0) :
    st.updateModes v x o = (st, some .valueError) := by
  unfold Sspor.updateModes
  rcases hv with rfl | ⟨z, rfl, hz⟩
  · rfl
  · simp [hz]

theorem sspor_update_needs_data (st : Sspor) (k : Nat) (o : List Nat) (hk : 0 < k)
    (hmore : st.basis.fitted = none ∨ ∀ nm, st.basis.nModes = some nm → nm < k) :
    st.updateModes (.int k) none o = (st, some .valueError) := by
  unfold Sspor.updateModes
  have h1 : ¬ ((k : Int) ≤ 0) := by omega
  have h2 : (st.basis.fitted.isSome && (match st.basis.nModes with | some nm => decide (k ≤ nm) | none => false)) = false := by
    rcases hmore with h | h
    · simp [h]
    · cases hm : st.basis.nModes with
      | none => simp
      | some nm => have := h nm hm; simp; intro _; omega
  simp only [h1, if_false, Int.toNat_natCast]
  simp
  intro a b; simp [a] at h2
  exact absurd (b.symm.trans h2) (by decide)

theorem sspor_update_too_many (st : Sspor) (k ne nf : Nat) (o : List Nat) (hk : 0 < k)
    (hmore : st.basis.fitted = none ∨ ∀ nm, st.basis.nModes = some nm → nm < k) (hne : ne < k) :
    st.updateModes (.int k) (some (ne, nf)) o = (st, some .valueError) := by
  unfold Sspor.updateModes
  have h1 : ¬ ((k : Int) ≤ 0) := by omega
  have h2 : (st.basis.fitted.isSome && (match st.basis.nModes with | some nm => decide (k ≤ nm) | none => false)) = false := by
    rcases hmore with h | h
    · simp [h]
    · cases hm : st.basis.nModes with
      | none => simp
      | some nm => have := h nm hm; simp; intro _; omega
  simp only [h1, if_false, Int.toNat_natCast]
  simp [hne]
  intro a b; simp [a] at h2
  exact absurd (b.symm.trans h2) (by decide)

/-- **C19 (SSPOC.update_sensors).** Negative, too large and non-integer sensor counts raise ValueError
and leave the model unchanged; so does a call with neither argument; an unfitted model raises
NotFittedError. -/
theorem sspoc_update_invalid (st : Sspoc) (hf : st.fitted = true) (v : PyCount) (thr : Option Rat)
    (xy : Bool) (mag : List Rat)
    (hinv : v = .other ∨ ∃ z : Int, v = .int z ∧ (z < 0 ∨ z > st.nFeat)) :
    st.updateSensors (some v) thr xy mag none = (st, some .valueError) := by
  unfold Sspoc.updateSensors
  simp only [hf]
  rcases hinv with rfl | ⟨z, rfl, hz⟩
  · rfl
  · simp only [Bool.not_true, Bool.false_eq_true, if_false]
    split
    · rfl
    · split
      · rfl
      · omega

theorem sspoc_update_neither (st : Sspoc) (hf : st.fitted = true) (xy : Bool) (mag : List Rat) :
    st.updateSensors none none xy mag none = (st, some .valueError) := by
  unfold Sspoc.updateSensors
  simp [hf]

theorem sspoc_update_unfitted (st : Sspoc) (hf : st.fitted = false) (n : Option PyCount)
    (thr : Option Rat) (xy : Bool) (mag : List Rat) :
    st.updateSensors n thr xy mag none = (st, some .notFitted) := by
  unfold Sspoc.updateSensors
  simp [hf]

/-- **C19 (basis constructors).** Accepted exactly for a positive builtin integer (or None where the
class allows it); every other value raises ValueError. -/
theorem basisCtor_spec (allowNone : Bool) (v : PyArg) :
    (basisCtor allowNone v = .ok ↔ ((v = .none ∧ allowNone = true) ∨ (∃ z : Int, 0 < z ∧ v = .pyInt z))) ∧
      (basisCtor allowNone v ≠ .ok → basisCtor allowNone v = .raises .valueError) := by
  cases v <;> cases allowNone <;> simp [basisCtor, PyArg.builtinInt?] <;>
    (try split) <;> simp_all

/-- **C19 (matrix_representation / matrix_inverse).** Unfitted: NotFittedError whatever the value;
fitted: None or an integer in `1 .. n_basis_modes` is accepted, everything else – zero, negative,
too large, float, string, list – raises ValueError. -/
theorem basisRep_spec (fitted : Bool) (nm : Nat) (v : PyArg) :
    (fitted = false → basisRep fitted nm v = .raises .notFitted) ∧
    (fitted = true →
      (basisRep fitted nm v = .ok ↔ (v = .none ∨ ∃ z : Int, v.integral? = some z ∧ 0 < z ∧ z ≤ nm)) ∧
      (basisRep fitted nm v ≠ .ok → basisRep fitted nm v = .raises .valueError)) := by
  cases fitted <;> cases v <;> simp [basisRep, PyArg.integral?]
  all_goals
    rename_i z
    by_cases h1 : z ≤ 0 <;> by_cases h2 : (nm : Int) < z <;> simp [h1, h2] <;> omega

/-- **C19 (measurement arrays).** Unfitted: NotFittedError; wrong type or wrong width: ValueError. -/
theorem predict_guard_spec (fitted isNd : Bool) (width ns : Nat) :
    ssporPredictGuard fitted isNd width ns =
      (if fitted = false then .raises .notFitted
       else if isNd = true ∧ width = ns then .ok else .raises .valueError) := by
  cases fitted <;> cases isNd <;> simp [ssporPredictGuard, validateInput] <;> split <;> simp_all

theorem full_state_guard_spec (fitted : Bool) (width nf : Nat) :
    ssporFullStateGuard fitted width nf =
      (if fitted = false then .raises .notFitted else if width = nf then .ok else .raises .valueError) := by
  cases fitted <;> simp [ssporFullStateGuard] <;> split <;> simp_all

/-- **C19 (cost vectors).** Non-1-D cost arrays are rejected by the constructor, mismatched lengths by fit. -/
theorem ccqr_costs_spec (ndim len : Option Nat) (n : Nat) :
    (ccqrCtor ndim = .ok ↔ (ndim = none ∨ ndim = some 1)) ∧
      (ccqrCtor ndim ≠ .ok → ccqrCtor ndim = .raises .valueError) ∧
      (ccqrFit len n = .ok ↔ (len = none ∨ len = some n)) ∧
      (ccqrFit len n ≠ .ok → ccqrFit len n = .raises .valueError) := by
  unfold ccqrCtor ccqrFit
  refine ⟨?_, ?_, ?_, ?_⟩ <;> (try cases ndim) <;> (try cases len) <;> simp <;> (try split) <;> simp_all

/-- **C19 (constraint option).** Exactly the four known names are accepted; every other string raises
NotImplementedError. -/
theorem gqr_option_spec (name : String) :
    gqrOption name = (if name = "" ∨ name = "max_n" ∨ name = "exact_n" ∨ name = "predetermined" then .ok
      else .raises .notImplemented) := by
  rfl

/-- **C19 (box bounds).** Contradictory bounds raise ValueError. -/
theorem box_contradictory (n : Nat) (hn : 0 < n) (xmin xmax ymin ymax : Rat) (nx ny : Bool)
    (h : xmin ≥ xmax ∨ ymin ≥ ymax) : boxGuard n true xmin xmax ymin ymax nx ny = .raises .valueError := by
  unfold boxGuard
  have : n ≠ 0 := by omega
  simp only [this, if_false, Bool.not_true, Bool.false_eq_true]
  rcases h with h | h
  · simp [h]
  · simp only [h, if_true]
    split <;> rfl

/-! ### links between the guard functions that the generated trees are proved equal to (Generated/Guards.lean, one
theorem per entry point, regenerated from the source on every run) and the state machines of the other properties -/

/-- the SSPOR machine's setter rejects exactly what `ssporSetNGuard` rejects, with the same error, and a rejected call
leaves the state unchanged -/
theorem sspor_setter_is_its_guard (st : Sspor) (v : PyArg) :
    (st.setN v.toCount).2 =
      (match ssporSetNGuard st.ranking.isSome (st.ranking.getD []).length v with
        | .ok => none | .raises e => some e) ∧
    ((st.setN v.toCount).2.isSome → (st.setN v.toCount).1 = st) :=
  sspor_setN_guard st v

/-- the SSPOR constructor accepts exactly what `ssporCtorGuard` accepts -/
theorem sspor_ctor_is_its_guard (b : BasisSt) (v : PyArg) :
    (Sspor.init b (match v with | .none => none | _ => some v.toCount)).isSome = (ssporCtorGuard v == .ok) :=
  sspor_init_guard b v

/-- the SSPOC machine's `update_sensors` rejects exactly what `sspocUpdateSensorsGuard` rejects -/
theorem sspoc_update_sensors_is_its_guard (st : Sspoc) (v : PyArg) (thr : Option Rat) (xy : Bool) (mag : List Rat) :
    (st.updateSensors (match v with | .none => none | _ => some v.toCount) thr xy mag none).2 =
      (match sspocUpdateSensorsGuard st.fitted v thr.isNone st.nFeat with
        | .ok => none | .raises e => some e) :=
  sspoc_updateSensors_guard st v thr xy mag

/-- the box guard of the model is the guard the generated tree is proved equal to -/
theorem box_guard_is_its_tree_spec (n : Nat) (ints : Bool) (xmin xmax ymin ymax : Rat) (nxInt nyInt : Bool) :
    boxGuard n ints xmin xmax ymin ymax nxInt nyInt =
      boxGuardB n ints (decide (xmin ≥ xmax)) (decide (ymin ≥ ymax)) nxInt nyInt :=
  boxGuard_eq n ints xmin xmax ymin ymax nxInt nyInt

/-- a tree never gets stuck on the environments it is specified for … stated for the one entry point where the code
compares before it tests the type (`n_sensors <= 0` is evaluated only after `isinstance`): the setter's tree on a
float argument raises ValueError, it does not reach the comparison -/
example (env : GEnv) (h : env.var "n_sensors" = .float false) (hf : env.flag "self.ranked_sensors_" = true) :
    Spec_ssporSetN env = .raises .valueError := by
  simp [Spec_ssporSetN, ssporSetNGuard, hf, h, PyArg.toCount, Outcome.toG]

end PsVerif
