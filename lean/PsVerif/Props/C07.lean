/-
  C07 — reconstruction is the least-squares fit of the measurements in the basis.
  Property theorems only.
-/
import PsVerif.Lemmas.LeastSquares
import PsVerif.Model.Recon
import Mathlib.LinearAlgebra.Span.Basic
namespace PsVerif
open Matrix

variable {p m n : ℕ}

/-- **C07 (span).** Every reconstruction `B c` lies in the span of the basis (columns of `B`). -/
theorem predict_in_span (B : Matrix (Fin n) (Fin m) ℚ) (c : Fin m → ℚ) :
    B *ᵥ c ∈ Submodule.span ℚ (Set.range fun j : Fin m => fun i => B i j) := by
  have e : B *ᵥ c = ∑ j, c j • (fun i => B i j) := by
    ext i
    simp [Matrix.mulVec, dotProduct, Finset.sum_apply, mul_comm]
  rw [e]
  exact Submodule.sum_mem _ (fun j _ => Submodule.smul_mem _ _ (Submodule.subset_span ⟨j, rfl⟩))

/-- **C07 (least squares).** The values of the reconstruction at the selected sensors are the best
approximation of the measurements `y` among all signals in the span: no coefficient vector does better. -/
theorem predict_least_squares (B : Matrix (Fin n) (Fin m) ℚ) (σ : Fin p → Fin n) (y : Fin p → ℚ)
    (c : Fin m → ℚ) (h : NormalEq (B.submatrix σ id) y c) (c' : Fin m → ℚ) :
    sq ((fun i => (B *ᵥ c) (σ i)) - y) ≤ sq ((fun i => (B *ᵥ c') (σ i)) - y) := by
  exact ls_optimal (B.submatrix σ id) y c h c'

/-- **C07 (interpolation).** When the sensor rows are independent and no more numerous than the
modes, the reconstruction takes exactly the measured values at the sensors. -/
theorem predict_interpolates (B : Matrix (Fin n) (Fin m) ℚ) (σ : Fin p → Fin n) (y : Fin p → ℚ)
    (c : Fin m → ℚ) (hrow : Function.Injective (B.submatrix σ id)ᵀ.mulVec)
    (h : NormalEq (B.submatrix σ id) y c) : (fun i => (B *ᵥ c) (σ i)) = y := by
  exact ls_interpolates (B.submatrix σ id) hrow y c h

/-- **C07 (linearity), full-column-rank case.** The map measurements ↦ reconstruction is linear:
the unique least-squares coefficients of `α y₁ + β y₂` are `α c₁ + β c₂`. -/
theorem predict_linear (B : Matrix (Fin n) (Fin m) ℚ) (σ : Fin p → Fin n)
    (hinj : Function.Injective (B.submatrix σ id).mulVec) (y₁ y₂ : Fin p → ℚ)
    (c₁ c₂ c : Fin m → ℚ) (α β : ℚ) (h₁ : NormalEq (B.submatrix σ id) y₁ c₁)
    (h₂ : NormalEq (B.submatrix σ id) y₂ c₂)
    (h : NormalEq (B.submatrix σ id) (α • y₁ + β • y₂) c) :
    B *ᵥ c = α • (B *ᵥ c₁) + β • (B *ᵥ c₂) := by
  have hc : c = α • c₁ + β • c₂ :=
    ls_unique _ hinj _ _ _ h (normalEq_linear _ y₁ y₂ c₁ c₂ h₁ h₂ α β)
  rw [hc, Matrix.mulVec_add, Matrix.mulVec_smul, Matrix.mulVec_smul]

/-- **C07 (linearity), minimum-norm case (fewer sensors than modes).** -/
theorem predict_linear_minnorm (B : Matrix (Fin n) (Fin m) ℚ) (σ : Fin p → Fin n)
    (y₁ y₂ : Fin p → ℚ) (z₁ z₂ z : Fin p → ℚ) (α β : ℚ)
    (h₁ : (B.submatrix σ id) *ᵥ ((B.submatrix σ id)ᵀ *ᵥ z₁) = y₁)
    (h₂ : (B.submatrix σ id) *ᵥ ((B.submatrix σ id)ᵀ *ᵥ z₂) = y₂)
    (h : (B.submatrix σ id) *ᵥ ((B.submatrix σ id)ᵀ *ᵥ z) = α • y₁ + β • y₂) :
    B *ᵥ ((B.submatrix σ id)ᵀ *ᵥ z) =
      α • (B *ᵥ ((B.submatrix σ id)ᵀ *ᵥ z₁)) + β • (B *ᵥ ((B.submatrix σ id)ᵀ *ᵥ z₂)) := by
  have e : (B.submatrix σ id)ᵀ *ᵥ z = (B.submatrix σ id)ᵀ *ᵥ (α • z₁ + β • z₂) := by
    apply minnorm_unique (B.submatrix σ id) (α • y₁ + β • y₂) _ _ h
    rw [Matrix.mulVec_add, Matrix.mulVec_smul, Matrix.mulVec_smul, Matrix.mulVec_add,
      Matrix.mulVec_smul, Matrix.mulVec_smul, h₁, h₂]
  rw [e, Matrix.mulVec_add, Matrix.mulVec_smul, Matrix.mulVec_smul, Matrix.mulVec_add,
    Matrix.mulVec_smul, Matrix.mulVec_smul]

/-- **C07 (shape).** The model's reconstruction has one row per sensor location (`n_features`). -/
theorem predictExact_rows (B : RMat) (sensors : List Nat) (Y R : RMat)
    (h : predictExact B sensors Y = some R) : R.size = B.size := by
  unfold predictExact at h
  simp only [Option.map_eq_some_iff] at h
  obtain ⟨C, _, rfl⟩ := h
  simp [RMat.mul, RMat.ofFn, RMat.nrows]

end PsVerif
