/-
  C04 — cost-constrained ranking maximises (residual norm − cost) at every step.
  Property theorems only; helper lemmas are in Lemmas/{Argmax,Greedy,SqrtOrder}.lean.
-/
import PsVerif.Lemmas.Greedy
import PsVerif.Lemmas.SqrtOrder
namespace PsVerif

variable {σ : Type}

/-- the candidate scores of an unmasked step, entry by entry -/
theorem candScores_noMask (S : ResidSys σ) (st : GState σ) (costs : Nat → Rat) (j : Nat) :
    candScores S st costs noMask j =
      (st.p.toList.drop j).map fun c => (S.norm2 st.lin c, costs c) := by
  unfold candScores noMask
  generalize st.p.toList.drop j = l
  generalize List.replicate st.p.size false = r
  rw [List.map_const']
  induction l with
  | nil => simp
  | cons c cs ih =>
    rw [List.length_cons, List.replicate_succ, List.cons_append, List.zipWith_cons_cons, ih]
    simp

/-- **C04 (exactness of the decision).** The model's pivot comparison is the comparison of
`√(squared residual) − cost` over the reals. -/
theorem ccqr_score_exact (a c b d : ℚ) (ha : 0 ≤ a) (hb : 0 ≤ b) :
    geSqrt a c b d = true ↔ Real.sqrt (b : ℝ) - (d : ℝ) ≤ Real.sqrt (a : ℝ) - (c : ℝ) :=
  geSqrt_iff a c b d ha hb

/-- **C04 (greedy rule).** For every residual system, every cost vector and every step whose
state has non-negative squared norms (every state of the Gram system, `gram_state_nonneg`): the sensor ranked at step `j` maximises `√(squared residual) − cost` among all
sensors not yet ranked, and it is the first such candidate. -/
theorem ccqr_greedy_max (S : ResidSys σ) (costs : Nat → Rat)
    (s0 : σ) (n j : Nat) (hj : j < n)
    (hnn : ∀ c, 0 ≤ S.norm2 (greedyRunFrom S costs noMask s0 n j).lin c) (q : Nat)
    (hq : (greedyRunFrom S costs noMask s0 n (j + 1)).p[j]? = some q) :
    let st := greedyRunFrom S costs noMask s0 n j
    q ∈ st.p.toList.drop j ∧
    ∀ c ∈ st.p.toList.drop j,
      Real.sqrt (S.norm2 st.lin c : ℝ) - (costs c : ℝ) ≤
        Real.sqrt (S.norm2 st.lin q : ℝ) - (costs q : ℝ) := by
  intro st
  obtain ⟨hoff, hpick, hmax, -⟩ := greedy_pick_max S costs noMask s0 scoreGe_order n j hj hnn
  have hsc := candScores_noMask S st costs j
  have hlen : (candScores S st costs noMask j).length = (st.p.toList.drop j).length := by
    rw [hsc, List.length_map]
  set off := firstArgmaxBy scoreGe (candScores S st costs noMask j) with hoffdef
  have hoff' : off < (st.p.toList.drop j).length := hlen ▸ hoff
  have hqeq : q = (st.p.toList.drop j)[off] := by
    have h1 : st.p[j + off]? = some q := by rw [← hpick]; exact hq
    have h2 : (st.p.toList.drop j)[off]? = some q := by
      rw [List.getElem?_drop]; simpa using h1
    rw [List.getElem?_eq_getElem hoff'] at h2
    exact (Option.some.inj h2).symm
  refine ⟨hqeq ▸ List.getElem_mem hoff', ?_⟩
  intro c hc
  obtain ⟨i, hi, rfl⟩ := List.getElem_of_mem hc
  have hi' : i < (candScores S st costs noMask j).length := hlen ▸ hi
  have h := hmax i hi'
  have e1 : (candScores S st costs noMask j)[off] =
      (S.norm2 st.lin (st.p.toList.drop j)[off], costs (st.p.toList.drop j)[off]) := by
    simp [hsc]
  have e2 : (candScores S st costs noMask j)[i] =
      (S.norm2 st.lin (st.p.toList.drop j)[i], costs (st.p.toList.drop j)[i]) := by
    simp [hsc]
  rw [e1, e2] at h
  have := (scoreGe_iff _ _ (hnn _) (hnn _)).mp h
  simpa [scoreR, hqeq] using this

/-- **C04 (shift invariance).** Adding the same constant to every cost never changes the run:
same picks, same residual state, for every residual system, mask and number of steps. -/
theorem ccqr_shift_invariant (S : ResidSys σ) (costs : Nat → Rat) (t : Rat) (mask : Mask)
    (s0 : σ) (n k : Nat) :
    greedyRunFrom S (fun c => costs c + t) mask s0 n k = greedyRunFrom S costs mask s0 n k := by
  induction k with
  | zero => rfl
  | succ k ih =>
    rw [greedyRunFrom_succ, greedyRunFrom_succ, ih]
    unfold greedyStep
    congr 2
    set st := greedyRunFrom S costs mask s0 n k
    have hmap : candScores S st (fun c => costs c + t) mask k =
        (candScores S st costs mask k).map fun x => (x.1, x.2 + t) := by
      unfold candScores
      rw [List.map_zipWith]
    rw [hmap]
    apply firstArgmaxBy_map
    intro x _ y _
    simp only [scoreGe]
    exact geSqrt_shift x.1 x.2 y.1 y.2 t

/-- **C04 (zero costs reproduce QR).** -/
theorem ccqr_zero_eq_qr (B : RMat) (n : Nat) : ccqrModel (List.replicate n 0) B = qrModel B := by
  unfold ccqrModel qrModel
  have : (fun c => (List.replicate n (0 : Rat)).getD c 0) = fun _ => (0 : Rat) := by
    funext c
    simp only [List.getD_eq_getElem?_getD, List.getElem?_replicate]
    split <;> rfl
  rw [this]

/-- `CCQR()` with `sensor_costs=None` (the empty cost list of the model) is QR as well -/
theorem ccqr_none_eq_qr (B : RMat) : ccqrModel [] B = qrModel B := by
  unfold ccqrModel qrModel
  have : (fun c => ([] : List Rat).getD c 0) = fun _ => (0 : Rat) := by
    funext c; simp
  rw [this]

/-- **C04 (prohibitive cost).** A candidate whose cost exceeds its residual norm is never ranked
while some zero-cost candidate still has non-zero residual. -/
theorem ccqr_prohibitive (S : ResidSys σ) (costs : Nat → Rat)
    (s0 : σ) (n j : Nat) (hj : j < n)
    (hnn : ∀ c, 0 ≤ S.norm2 (greedyRunFrom S costs noMask s0 n j).lin c) (q i z : Nat)
    (hq : (greedyRunFrom S costs noMask s0 n (j + 1)).p[j]? = some q) :
    let st := greedyRunFrom S costs noMask s0 n j
    z ∈ st.p.toList.drop j → costs z = 0 → 0 < S.norm2 st.lin z →
    0 < costs i → S.norm2 st.lin i ≤ costs i * costs i → q ≠ i := by
  intro st hz hcz hzpos hci hbig hqi
  subst hqi
  have h := (ccqr_greedy_max S costs s0 n j hj hnn q hq).2 z hz
  have hz' : 0 < Real.sqrt (S.norm2 st.lin z : ℝ) := by
    apply Real.sqrt_pos.mpr
    exact_mod_cast hzpos
  have hi' : Real.sqrt (S.norm2 st.lin q : ℝ) ≤ (costs q : ℝ) := by
    have h0 : (0 : ℝ) ≤ (costs q : ℝ) := by exact_mod_cast hci.le
    rw [show (costs q : ℝ) = Real.sqrt ((costs q : ℝ) * (costs q : ℝ)) from
      (Real.sqrt_mul_self h0).symm]
    apply Real.sqrt_le_sqrt
    exact_mod_cast hbig
  rw [hcz] at h
  simp at h
  linarith

/-- **C04 (zero-residual pivot).** Choosing a sensor whose residual is exactly zero removes no
direction from the remaining residuals: the residual system is unchanged. -/
theorem zero_pivot_removes_nothing (G : RMat) (q : Nat) (h : G.get q q = 0) : schur G q = G := by
  unfold schur
  simp [h]

/-- non-vacuity: the defect input of F1 (zero row made attractive by a negative cost) in the
model – sensor 1 (residual 1) is ranked before sensor 2 (residual 9/10). -/
example : ccqrModel [-10, 0, 0] #[#[0, 0], #[1, 0], #[0, 9/10]] = [0, 1, 2] := by decide +kernel

end PsVerif
