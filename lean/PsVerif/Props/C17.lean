/-
  C17 — scores and error metrics equal their definitions.  Property theorems only.
-/
import PsVerif.Lemmas.LeastSquares
import PsVerif.Model.Recon
import PsVerif.Model.Sspor
import Mathlib.LinearAlgebra.Matrix.PosDef
import Mathlib.Analysis.RCLike.Basic
import Mathlib.Analysis.Matrix.PosDef
import Mathlib.Algebra.Order.Star.Real
namespace PsVerif
open Matrix

variable {p m n : ℕ}

/-- **C17 (relative error).** `‖(d − q)/‖d‖‖² = ‖d − q‖² / ‖d‖²`: dividing by the norm of the data
inside or outside the norm is the same (so the function returns `100·‖d − q‖/‖d‖`). -/
theorem rel_error_identity (d q : Fin p → ℚ) (s : ℚ) (hs : s ≠ 0) :
    sq (fun i => (d i - q i) / s) = sq (fun i => d i - q i) / (s * s) :=
  rel_error_sq d q s hs

/-- **C17 (determinant, tall case).** `det(ΘᵀΘ) ≥ 0`, so taking the absolute value changes nothing. -/
theorem det_gram_nonneg (T : Matrix (Fin p) (Fin m) ℝ) : 0 ≤ (Tᵀ * T).det := by
  have h := Matrix.posSemidef_conjTranspose_mul_self T
  rw [Matrix.conjTranspose_eq_transpose_of_trivial] at h
  exact h.det_nonneg

/-- **C17 (sensor rows).** Multiplying by the 0/1 selection matrix built from the sensor list is
gathering the sensor rows of the basis matrix. -/
theorem theta_eq_gather (σ : Fin p → Fin n) (B : Matrix (Fin n) (Fin m) ℚ) :
    selMatrix σ * B = B.submatrix σ id := by
  rw [gather_eq_selection_mul]
  rfl

/-- the model's determinant is the absolute value it promises (never negative), and is only
defined with at least as many sensors as modes -/
theorem determinantModel_nonneg (B : RMat) (sensors : List Nat) (d : Rat)
    (h : determinantModel B sensors = some d) : 0 ≤ d ∧ B.ncols ≤ sensors.length := by
  unfold determinantModel at h
  simp only at h
  split at h
  · rename_i hp
    simp only [Option.some.injEq] at h
    subst h
    refine ⟨?_, by omega⟩
    split <;> rename_i hd
    · linarith
    · exact not_lt.1 hd
  · split at h
    · rename_i hp
      simp only [Option.some.injEq] at h
      subst h
      refine ⟨?_, by omega⟩
      split <;> rename_i hd
      · linarith
      · exact not_lt.1 hd
    · exact absurd h (by simp)

theorem foldl_sq_zero (r : Array Rat) (acc : Rat) (h : ∀ x ∈ r, x = 0) :
    r.foldl (fun a x => a + x * x) acc = acc := by
  rw [← Array.foldl_toList]
  have h' : ∀ x ∈ r.toList, x = 0 := fun x hx => h x (Array.mem_toList_iff.1 hx)
  generalize r.toList = l at h'
  induction l generalizing acc with
  | nil => rfl
  | cons x xs ih =>
    rw [List.foldl_cons, ih _ (fun y hy => h' y (List.mem_cons_of_mem _ hy)),
      h' x List.mem_cons_self]
    simp

theorem foldl_foldl_sq_zero (D : RMat) (acc : Rat) (h : ∀ r ∈ D, ∀ x ∈ r, x = 0) :
    D.foldl (fun acc r => r.foldl (fun a x => a + x * x) acc) acc = acc := by
  rw [← Array.foldl_toList]
  have h' : ∀ r ∈ D.toList, ∀ x ∈ r, x = 0 := fun r hr => h r (Array.mem_toList_iff.1 hr)
  generalize D.toList = l at h'
  induction l generalizing acc with
  | nil => rfl
  | cons r rs ih =>
    rw [List.foldl_cons, ih _ (fun y hy => h' y (List.mem_cons_of_mem _ hy)),
      foldl_sq_zero r acc (h' r List.mem_cons_self)]

/-- mean squared error is symmetric and vanishes exactly on equal arrays of equal shape
(`sqErr` is the numerator of `mean((x − y)²)`) -/
theorem sqErr_self (A : RMat) : (sqErr A A).1 = 0 := by
  unfold sqErr
  simp only
  apply foldl_foldl_sq_zero
  intro r hr x hx
  unfold RMat.sub RMat.ofFn at hr
  rw [Array.mem_ofFn] at hr
  obtain ⟨i, rfl⟩ := hr
  rw [Array.mem_ofFn] at hx
  obtain ⟨j, rfl⟩ := hx
  exact sub_self _

end PsVerif
