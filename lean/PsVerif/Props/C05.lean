/-
  C05 — region constraints bound the number of selected sensors inside the region.
  Property theorems only (helper lemmas: Lemmas/Masked.lean and below it).
  All theorems hold for EVERY residual system (`ResidSys`): the guarantee does not depend on
  which sensors happen to have large norms.
-/
import PsVerif.Lemmas.Masked
import PsVerif.Lemmas.RegionA
import PsVerif.Lemmas.RegionB
import PsVerif.Props.C03
import PsVerif.Props.C01
namespace PsVerif

variable {σ : Type}

/-- the GQR keyword state of a constrained run: option `o`, region `L`, allowance `s`,
unconstrained ranking `A`, total number of sensors `N` -/
def cfgOf (o : COption) (L : List Nat) (s : Nat) (A : List Nat) (N : Nat) : GqrCfg :=
  { opt := o, L := L, s := s, A := A, nSensors := some N }

/-- What the property assumes about the inputs.  `hA`: the supplied ranking `A` is a permutation
whose first `N` entries are the first `N` picks of the unconstrained run of the same residual
system (the masks read nothing else of `A`; LAPACK's order of the unranked tail is arbitrary). -/
structure GqrSetup (S : ResidSys σ) (s0 : σ) (n N : Nat) (L A : List Nat) : Prop where
  hN : 1 ≤ N
  hNn : N ≤ n
  hL : ∀ x ∈ L, x < n
  hLn : L.Nodup
  hAp : A.Perm (List.range n)
  hA : A.take N = (greedyRunFrom S zc noMask s0 n N).p.toList.take N
  /-- squared norms are non-negative along the unconstrained run -/
  hnn0 : ∀ j < N, ∀ c, 0 ≤ S.norm2 (greedyRunFrom S zc noMask s0 n j).lin c

/-- "no candidate has exactly zero residual" during the first `N` steps of the constrained run -/
def PosCands (S : ResidSys σ) (mask : Mask) (s0 : σ) (n N : Nat) : Prop :=
  ∀ j < N, ∀ c ∈ (greedyRunFrom S zc mask s0 n j).p.toList.drop j,
    0 < S.norm2 (greedyRunFrom S zc mask s0 n j).lin c

/-- squared norms are non-negative along the constrained run -/
def NonnegRun (S : ResidSys σ) (mask : Mask) (s0 : σ) (n N : Nat) : Prop :=
  ∀ j < N, ∀ c, 0 ≤ S.norm2 (greedyRunFrom S zc mask s0 n j).lin c

/-- **C05, predetermined.** The first `N − s` ranked sensors lie outside the predetermined set and
the last `s` inside it. -/
theorem predetermined_split (S : ResidSys σ) (s0 : σ) (n N s k : Nat) (L A : List Nat)
    (h : GqrSetup S s0 n N L A) (hs : s ≤ N) (hin : s ≤ L.length) (hout : N - s ≤ n - L.length)
    (hk : N ≤ k)
    (hnn : NonnegRun S (cfgOf .predetermined L s A N).mask s0 n N)
    (hpos : PosCands S (cfgOf .predetermined L s A N).mask s0 n N) :
    let r := (greedyRunFrom S zc (cfgOf .predetermined L s A N).mask s0 n k).p.toList.take N
    (∀ x ∈ r.take (N - s), inL L x = false) ∧ (∀ x ∈ r.drop (N - s), inL L x = true) := by
  intro r
  have _ := hs
  have hmask : (cfgOf .predetermined L s A N).mask = pmask (predMasked L s N) := rfl
  have hr : r = (greedyRunFrom S zc (pmask (predMasked L s N)) s0 n N).p.toList.take N := by
    show (greedyRunFrom S zc (cfgOf .predetermined L s A N).mask s0 n k).p.toList.take N = _
    rw [hmask]
    exact greedyRunFrom_take S zc _ s0 n N k hk
  rw [hr]
  exact pred_split_run S L s N s0 n h.hL h.hLn h.hNn hin hout hnn hpos

/-- **C05, max_n.** The first `N` ranked sensors contain at most `s` region sensors. -/
theorem maxN_count_le (S : ResidSys σ) (s0 : σ) (n N s k : Nat) (L A : List Nat)
    (h : GqrSetup S s0 n N L A) (hout : N - s ≤ n - L.length) (hk : N ≤ k)
    (hnn : NonnegRun S (cfgOf .maxN L s A N).mask s0 n N)
    (hpos : PosCands S (cfgOf .maxN L s A N).mask s0 n N) :
    ((greedyRunFrom S zc (cfgOf .maxN L s A N).mask s0 n k).p.toList.take N).countP (inL L) ≤ s := by
  have hmask : (cfgOf .maxN L s A N).mask = pmask (fun _ c => maxNMasked L A s N c) := by
    show pmask (fun _ c => maxNMasked L A s (effN (some N) A) c) = _
    rw [effN_some N A h.hN]
  unfold PosCands at hpos
  unfold NonnegRun at hnn
  rw [hmask] at hnn hpos ⊢
  rw [greedyRunFrom_take S zc _ s0 n N k hk]
  by_cases ht : regionCount L A N ≤ s
  · exact maxN_count_run_le S L A s N s0 n h.hA ht
  · exact maxN_count_run_gt S L A s N s0 n h.hL h.hLn h.hAp h.hNn hout (by omega) hnn hpos

/-- **C05, exact_n.** The first `N` ranked sensors contain exactly `s` region sensors. -/
theorem exactN_count_eq (S : ResidSys σ) (s0 : σ) (n N s k : Nat) (L A : List Nat)
    (h : GqrSetup S s0 n N L A) (hs : s ≤ N) (hin : s ≤ L.length) (hout : N - s ≤ n - L.length)
    (hk : N ≤ k)
    (hnn : NonnegRun S (cfgOf .exactN L s A N).mask s0 n N)
    (hpos : PosCands S (cfgOf .exactN L s A N).mask s0 n N) :
    ((greedyRunFrom S zc (cfgOf .exactN L s A N).mask s0 n k).p.toList.take N).countP (inL L) = s := by
  have hmask : (cfgOf .exactN L s A N).mask = pmask (exactNMasked L A s N) := by
    have hN := h.hN
    obtain ⟨m, rfl⟩ : ∃ m, N = m + 1 := ⟨N - 1, by omega⟩
    rfl
  rw [hmask] at hnn hpos ⊢
  rw [greedyRunFrom_take S zc _ s0 n N k hk]
  exact exactN_count_core S s0 n N s L A h.hNn h.hL h.hLn h.hAp h.hA h.hnn0 hs hin hout hnn hpos

end PsVerif

namespace PsVerif

/-- **C05 (SSPOR with GQR).** The sensors selected by an SSPOR model with `n_sensors = N ≤ n_basis_modes`
are the first `N` sensors ranked by its optimizer (the tail shuffle starts at `n_basis_modes`), so the
three count theorems above carry over to the model's selection. -/
theorem sspor_selection_eq_optimizer (σ : List Nat → List Nat) (m N : Nat) (r : List Nat)
    (hN : N ≤ m) (hm : m ≤ r.length) :
    selectLead N (tailShuffle σ m r) = r.take N := by
  unfold selectLead
  have h := tailShuffle_take σ m r hm
  have h1 : ((tailShuffle σ m r).take m).take N = (r.take m).take N := by rw [h]
  simpa [List.take_take, Nat.min_eq_left hN] using h1

end PsVerif

/-! ### Non-vacuity: a concrete feasible instance of every theorem (Gram system of a 4×2 basis matrix) -/
section NonVacuity
open PsVerif

def exB : RMat := #[#[3, 0], #[0, 2], #[1, 1], #[2, 3]]
def exA : List Nat := [3, 0, 2, 1]

private theorem exB_wf : exB.WF exB.size 2 := by unfold RMat.WF; decide

private theorem ex_nonneg (mask : Mask) : NonnegRun gramSys mask (gram exB) 4 2 := by
  intro j hj c
  exact gram_state_nonneg exB 2 exB_wf zc mask j (by show j ≤ 4; omega) c

private theorem ex_setup (L : List Nat) (hL : ∀ x ∈ L, x < 4) (hLn : L.Nodup) :
    GqrSetup gramSys (gram exB) 4 2 L exA :=
  { hN := by decide, hNn := by decide, hL := hL, hLn := hLn, hAp := by decide,
    hA := by decide +kernel, hnn0 := ex_nonneg noMask }

/-- exact_n, under-filled (QR's first two sensors 3, 0 contain no sensor of the region {1, 2}) -/
example : ((greedyRunFrom gramSys zc (cfgOf .exactN [1, 2] 1 exA 2).mask (gram exB) 4 2).p.toList.take 2).countP
    (inL [1, 2]) = 1 :=
  exactN_count_eq gramSys (gram exB) 4 2 1 2 [1, 2] exA (ex_setup _ (by decide) (by decide))
    (by decide) (by decide) (by decide) (by decide) (ex_nonneg _) (by unfold PosCands; decide +kernel)

/-- max_n, over-filled (QR's first two sensors are both in the region {0, 3}, one is allowed) -/
example : ((greedyRunFrom gramSys zc (cfgOf .maxN [0, 3] 1 exA 2).mask (gram exB) 4 2).p.toList.take 2).countP
    (inL [0, 3]) ≤ 1 :=
  maxN_count_le gramSys (gram exB) 4 2 1 2 [0, 3] exA (ex_setup _ (by decide) (by decide))
    (by decide) (by decide) (ex_nonneg _) (by unfold PosCands; decide +kernel)

/-- predetermined -/
example :
    let r := (greedyRunFrom gramSys zc (cfgOf .predetermined [1, 2] 1 exA 2).mask (gram exB) 4 2).p.toList.take 2
    (∀ x ∈ r.take 1, inL [1, 2] x = false) ∧ (∀ x ∈ r.drop 1, inL [1, 2] x = true) :=
  predetermined_split gramSys (gram exB) 4 2 1 2 [1, 2] exA (ex_setup _ (by decide) (by decide))
    (by decide) (by decide) (by decide) (by decide) (ex_nonneg _) (by unfold PosCands; decide +kernel)

/-- the constraint is really active in these instances: the constrained ranking differs from QR's -/
example : (greedyRunFrom gramSys zc (cfgOf .exactN [1, 2] 1 exA 2).mask (gram exB) 4 2).p.toList.take 2 = [3, 1] := by
  decide +kernel

end NonVacuity
