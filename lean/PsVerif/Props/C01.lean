/-
  C01 — every sensor ranking is a permutation of the sensor indices.
  Property theorems only.  Core Lean, no Mathlib.
-/
import PsVerif.Model.Bookkeeping
namespace PsVerif

theorem pivStep_perm (choose : Nat → Array Nat → Nat) (p : Array Nat) (j : Nat) :
    (pivStep choose p j).Perm p := by
  unfold pivStep
  simp only
  split
  · exact Array.swap_perm _ _
  · exact Array.Perm.refl _

theorem pivStep_size (choose : Nat → Array Nat → Nat) (p : Array Nat) (j : Nat) :
    (pivStep choose p j).size = p.size := by
  unfold pivStep
  simp only
  split <;> simp

theorem foldl_pivStep_perm (choose : Nat → Array Nat → Nat) (js : List Nat) (p : Array Nat) :
    (js.foldl (pivStep choose) p).Perm p := by
  induction js generalizing p with
  | nil => exact Array.Perm.refl _
  | cons j js ih => exact (ih _).trans (pivStep_perm choose p j)

/-- **C01, optimizer part.** Whatever the pivot oracle does (any costs, constraints, matrix,
NaNs), after any number of steps the tracked index array is a permutation of `0..n-1`. -/
theorem pivLoop_perm (choose : Nat → Array Nat → Nat) (n k : Nat) :
    (pivLoop choose n k).Perm (Array.range n) :=
  foldl_pivStep_perm choose _ _

theorem pivLoop_toList_perm (choose : Nat → Array Nat → Nat) (n k : Nat) :
    (pivLoop choose n k).toList.Perm (List.range n) := by
  have h := (pivLoop_perm choose n k).toList
  simpa using h

/-- every index `0..n-1` occurs exactly once -/
theorem pivLoop_count (choose : Nat → Array Nat → Nat) (n k i : Nat) (hi : i < n) :
    (pivLoop choose n k).toList.count i = 1 := by
  rw [(pivLoop_toList_perm choose n k).count_eq]
  rw [List.nodup_range.count]; simp [hi]

theorem pivLoop_nodup (choose : Nat → Array Nat → Nat) (n k : Nat) :
    (pivLoop choose n k).toList.Nodup :=
  (pivLoop_toList_perm choose n k).nodup_iff.mpr List.nodup_range

theorem pivLoop_mem (choose : Nat → Array Nat → Nat) (n k x : Nat) :
    x ∈ (pivLoop choose n k).toList ↔ x < n := by
  rw [(pivLoop_toList_perm choose n k).mem_iff, List.mem_range]

/-- **C01, shuffle part.** Shuffling the unranked tail by any rearrangement `σ` keeps the
ranking a permutation. -/
theorem tailShuffle_perm (σ : List Nat → List Nat) (hσ : ∀ l, (σ l).Perm l) (m : Nat)
    (r : List Nat) : (tailShuffle σ m r).Perm r := by
  unfold tailShuffle
  have := (List.Perm.append_left (r.take m) (hσ (r.drop m)))
  simpa [List.take_append_drop] using this

/-- the first `m` entries are untouched by the shuffle (used again by C16) -/
theorem tailShuffle_take (σ : List Nat → List Nat) (m : Nat) (r : List Nat) (hm : m ≤ r.length) :
    (tailShuffle σ m r).take m = r.take m := by
  unfold tailShuffle
  rw [List.take_append_of_le_length (by simp [hm])]
  simp [List.take_take]

/-- **C01, selection part.** The selected sensors of a model whose ranking is a permutation of
`0..n-1` are distinct, valid, and their number is the reported sensor count. -/
theorem selected_spec (r : List Nat) (n ns : Nat) (hr : r.Perm (List.range n)) (hns : ns ≤ n) :
    (selectLead ns r).Nodup ∧ (∀ x ∈ selectLead ns r, x < n) ∧ (selectLead ns r).length = ns := by
  have hnd : r.Nodup := hr.nodup_iff.mpr List.nodup_range
  have hlen : r.length = n := by simpa using hr.length_eq
  refine ⟨?_, ?_, ?_⟩
  · exact (List.take_sublist ns r).nodup hnd
  · intro x hx
    have : x ∈ r := List.mem_of_mem_take hx
    simpa using (hr.mem_iff.mp this)
  · simp [selectLead, hlen, hns]

/-- End to end: optimizer loop, then tail shuffle, then selection. -/
theorem ranking_pipeline_spec (choose : Nat → Array Nat → Nat) (σ : List Nat → List Nat)
    (hσ : ∀ l, (σ l).Perm l) (n k m ns : Nat) (hns : ns ≤ n) :
    let r := tailShuffle σ m (pivLoop choose n k).toList
    r.Perm (List.range n) ∧ (selectLead ns r).Nodup ∧ (∀ x ∈ selectLead ns r, x < n) ∧
      (selectLead ns r).length = ns := by
  intro r
  have hr : r.Perm (List.range n) :=
    (tailShuffle_perm σ hσ m _).trans (pivLoop_toList_perm choose n k)
  exact ⟨hr, selected_spec r n ns hr hns⟩

/-- non-vacuity: a concrete oracle trace -/
example : (pivLoop (traceOracle [2, 0, 1]) 4 3).toList = [2, 1, 3, 0] := by decide
example : isPermOfRange (pivLoop (traceOracle [2, 0, 1]) 4 3).toList = true := by decide

end PsVerif
