/-
  C01 over a model's whole life — the ranking held by an SSPOR model is a permutation of the sensors of
  ITS basis matrix after every accepted call of every history (fits, setter calls, mode updates, the basis
  object fitted behind the model's back, pickled copies), provided each optimizer answer is a permutation of
  the sensors of the matrix it was given (that is `pivLoop_perm` / `tailShuffle_perm` of Props/C01.lean).
  Invariant by induction over the operations of `Model/Sspor.lean`.  Property theorems only.  Core Lean.

  Why "accepted": a REJECTED fit may leave the basis matrix replaced and the ranking old (finding F11,
  witness `rejected_fit_breaks_rankOK`) – nothing is claimed from a rejected fit until the next accepted one.
-/
import PsVerif.Props.C14
import PsVerif.Props.C15
namespace PsVerif

/-- the ranking (if any) is a permutation of the sensor rows of the model's own basis matrix -/
def Sspor.RankOK (st : Sspor) : Prop :=
  ∀ r, st.ranking = some r → ∃ shape, st.bm = some shape ∧ r.Perm (List.range shape.1)

def SsporOp.oracle? : SsporOp → Option (List Nat)
  | .fit _ _ _ o => some o
  | .updateModes _ _ o => some o
  | _ => none

/-- the optimizer's answer in this call is a permutation of the sensors of the basis matrix the call installs -/
def OracleOK (st : Sspor) (op : SsporOp) : Prop :=
  ∀ o, op.oracle? = some o → ∀ shape, (st.step op).1.bm = some shape → o.Perm (List.range shape.1)

/-- an accepted `fit` installs the optimizer's answer together with a basis matrix -/
theorem fit_ok_installs (st : Sspor) (ne nf : Nat) (pf : Bool) (o : List Nat) (hok : (st.fit ne nf pf o).2 = none) :
    (st.fit ne nf pf o).1.ranking = some o ∧ ∃ shape, (st.fit ne nf pf o).1.bm = some shape := by
  rw [Sspor.fit_eq_tail] at hok ⊢
  generalize (if pf = true then
      (st.basis, if st.basis.fitted.isSome then none else some Err.notFitted)
    else st.basis.fit ne nf) = p at hok ⊢
  obtain ⟨b, e1⟩ := p
  unfold Sspor.fitTail at hok ⊢
  cases e1 with
  | some e => simp at hok
  | none =>
    simp only [] at hok ⊢
    cases hrep : b.rep st.nBasisModes with
    | error e => simp [hrep] at hok
    | ok shape =>
      simp only [hrep] at hok ⊢
      cases hn : st.nSensors with
      | none => simp
      | some k =>
        simp only [hn] at hok ⊢
        cases hd : st.defaulted with
        | true => simp
        | false =>
          simp only [hd] at hok ⊢
          by_cases h : k > shape.1
          · simp [h] at hok
          · simp [h]

/-- an accepted `update_n_basis_modes` installs the optimizer's answer together with a basis matrix -/
theorem updateModes_ok_installs (st : Sspor) (v : PyCount) (x : Option (Nat × Nat)) (o : List Nat)
    (hok : (st.updateModes v x o).2 = none) :
    (st.updateModes v x o).1.ranking = some o ∧ ∃ shape, (st.updateModes v x o).1.bm = some shape := by
  cases v with
  | other => simp [Sspor.updateModes] at hok
  | int z =>
    by_cases hz : z ≤ 0
    · simp [Sspor.updateModes, hz] at hok
    · cases x with
      | none =>
        simp only [Sspor.updateModes, hz, if_false] at hok ⊢
        cases hnm : st.basis.nModes with
        | none => simp [hnm] at hok
        | some nm =>
          simp only [hnm] at hok ⊢
          by_cases hc : (st.basis.fitted.isSome && decide (z.toNat ≤ nm)) = true
          · rw [if_pos hc] at hok ⊢
            exact fit_ok_installs _ _ _ _ _ hok
          · rw [if_neg hc] at hok
            simp at hok
      | some p =>
        obtain ⟨ne, nf⟩ := p
        simp only [Sspor.updateModes, hz, if_false] at hok ⊢
        have tail : ∀ (hok : ((if z.toNat > ne then (st, some Err.valueError) else
              ({ st with nBasisModes := some z.toNat,
                         basis := { st.basis with nModes := some z.toNat, modesFromFit := false } } : Sspor).fit ne nf false o) : Sspor × Option Err).2 = none),
            ((if z.toNat > ne then (st, some Err.valueError) else
              ({ st with nBasisModes := some z.toNat,
                         basis := { st.basis with nModes := some z.toNat, modesFromFit := false } } : Sspor).fit ne nf false o) : Sspor × Option Err).1.ranking = some o ∧
            ∃ shape, ((if z.toNat > ne then (st, some Err.valueError) else
              ({ st with nBasisModes := some z.toNat,
                         basis := { st.basis with nModes := some z.toNat, modesFromFit := false } } : Sspor).fit ne nf false o) : Sspor × Option Err).1.bm = some shape := by
          intro hok
          by_cases hk : z.toNat > ne
          · simp [hk] at hok
          · rw [if_neg hk] at hok ⊢
            exact fit_ok_installs _ _ _ _ _ hok
        cases hnm : st.basis.nModes with
        | none =>
          simp only [hnm, Bool.and_false, Bool.false_eq_true, if_false] at hok ⊢
          exact tail hok
        | some nm =>
          simp only [hnm] at hok ⊢
          by_cases hc : (st.basis.fitted.isSome && decide (z.toNat ≤ nm)) = true
          · rw [if_pos hc] at hok ⊢
            exact fit_ok_installs _ _ _ _ _ hok
          · rw [if_neg hc] at hok ⊢
            exact tail hok

/-- **C01 (one call).** An accepted call keeps the invariant. -/
theorem step_rankOK (st : Sspor) (op : SsporOp) (h : st.RankOK) (hok : (st.step op).2 = none)
    (ho : OracleOK st op) : (st.step op).1.RankOK := by
  cases op with
  | fit ne nf pf o =>
    intro r hr
    have hi := fit_ok_installs st ne nf pf o hok
    obtain ⟨hrk, shape, hbm⟩ := hi
    simp only [Sspor.step] at hr ⊢
    rw [hrk] at hr
    have hro : o = r := Option.some.inj hr
    subst hro
    exact ⟨shape, hbm, ho o rfl shape hbm⟩
  | updateModes v x o =>
    intro r hr
    have hi := updateModes_ok_installs st v x o hok
    obtain ⟨hrk, shape, hbm⟩ := hi
    simp only [Sspor.step] at hr ⊢
    rw [hrk] at hr
    have hro : o = r := Option.some.inj hr
    subst hro
    exact ⟨shape, hbm, ho o rfl shape hbm⟩
  | setN v =>
    intro r hr
    have hp := setN_preserves_ranking st v
    simp only [Sspor.step] at hr ⊢
    rw [hp.1] at hr
    rw [hp.2.1]
    exact h r hr
  | basisFit ne nf =>
    intro r hr
    simp only [Sspor.step] at hr ⊢
    exact h r hr
  | roundTrip =>
    intro r hr
    simp only [Sspor.step] at hr ⊢
    exact h r hr

/-- every call of the history is accepted and every optimizer answer is a permutation of the sensors it was asked about -/
def AllAccepted : Sspor → List SsporOp → Prop
  | _, [] => True
  | st, op :: ops => (st.step op).2 = none ∧ OracleOK st op ∧ AllAccepted (st.step op).1 ops

/-- **C01 (every history).** From a freshly constructed model, after any sequence of accepted calls – fits on data of any
widths, setter calls, mode updates, the basis object fitted by somebody else, copies – the ranking is a permutation of the
sensor rows of the model's own basis matrix. -/
theorem run_rankOK (st : Sspor) (ops : List SsporOp) (h : st.RankOK) (hall : AllAccepted st ops) :
    (st.run ops).RankOK := by
  induction ops generalizing st with
  | nil => simpa [Sspor.run] using h
  | cons op ops ih =>
    obtain ⟨hok, ho, hrest⟩ := hall
    have : (st.run (op :: ops)) = ((st.step op).1).run ops := by simp [Sspor.run]
    rw [this]
    exact ih _ (step_rankOK st op h hok ho) hrest

theorem init_rankOK (b : BasisSt) (ns : Option PyCount) (st : Sspor) (h : Sspor.init b ns = some st) : st.RankOK := by
  intro r hr
  unfold Sspor.init at h
  cases ns with
  | none => simp at h; subst h; simp at hr
  | some c =>
    cases c with
    | other => simp at h
    | int v =>
      simp only [] at h
      by_cases hv : v > 0
      · simp [hv] at h; subst h; simp at hr
      · simp [hv] at h

/-- consequence: the selected sensors are distinct valid sensor indices -/
theorem selected_nodup_valid (st : Sspor) (h : st.RankOK) (sel : List Nat) (hs : st.selected = .ok sel) :
    sel.Nodup ∧ ∃ shape, st.bm = some shape ∧ ∀ s ∈ sel, s < shape.1 := by
  unfold Sspor.selected at hs
  cases hr : st.ranking with
  | none => simp [hr] at hs
  | some r =>
    simp only [hr] at hs
    obtain ⟨shape, hbm, hp⟩ := h r hr
    have hnd : r.Nodup := hp.nodup_iff.mpr List.nodup_range
    have hsel : sel = selectLead (st.nSensors.getD 0) r := by
      cases hs; rfl
    subst hsel
    refine ⟨?_, shape, hbm, ?_⟩
    · exact List.Nodup.sublist (by unfold selectLead; exact List.take_sublist _ _) hnd
    · intro s hsIn
      have : s ∈ r := by
        unfold selectLead at hsIn
        exact List.mem_of_mem_take hsIn
      have := hp.mem_iff.mp this
      simpa using this

/-- a fitted model with three sensors chosen explicitly, about to be refitted on data with only two sensors -/
def f11State : Sspor :=
  { nSensors := some 3, defaulted := false, nBasisModes := none,
    basis := { kind := .identity, nModes := some 2, fitted := some (4, 2) },
    ranking := some [0, 1, 2, 3], bm := some (4, 2) }

/-- the restriction to accepted calls is needed: a rejected fit on narrower data leaves the old ranking next to the new basis
matrix (finding F11) -/
theorem rejected_fit_breaks_rankOK :
    f11State.RankOK ∧ (f11State.fit 2 2 false [0, 1]).2 ≠ none ∧ ¬ (f11State.fit 2 2 false [0, 1]).1.RankOK := by
  refine ⟨?_, by decide, ?_⟩
  · intro r hr
    have hro : [0, 1, 2, 3] = r := Option.some.inj hr
    subst hro
    exact ⟨(4, 2), rfl, by decide⟩
  · intro h
    obtain ⟨shape, hbm, hp⟩ := h [0, 1, 2, 3] (by decide)
    have hb : (f11State.fit 2 2 false [0, 1]).1.bm = some (2, 2) := by decide
    rw [hb] at hbm
    have hshape : (2, 2) = shape := Option.some.inj hbm
    subst hshape
    have := hp.length_eq
    simp at this

/-- non-vacuity: a history of five accepted calls, including an outside basis fit on narrower data and a copy -/
example : ∃ st0 : Sspor, Sspor.init { kind := .svd, nModes := some 2, fitted := none } none = some st0 ∧
    AllAccepted st0 [.fit 3 4 false [2, 0, 1, 3], .updateModes (.int 1) none [1, 0, 3, 2], .basisFit 3 3, .roundTrip,
                     .updateModes (.int 1) none [2, 1, 0], .setN (.int 2)] := by
  refine ⟨_, rfl, ?_⟩
  simp only [AllAccepted, OracleOK]
  refine ⟨by decide, ?_, by decide, ?_, by decide, ?_, by decide, ?_, by decide, ?_, by decide, ?_, trivial⟩
  all_goals (intro o ho shape hs; simp [SsporOp.oracle?] at ho)
  all_goals (subst ho)
  · have : shape = (4, 2) := by
      have h2 : _ = some shape := hs
      revert h2; decide +revert
    subst this; decide
  · have : shape = (4, 1) := by
      have h2 : _ = some shape := hs
      revert h2; decide +revert
    subst this; decide
  · have : shape = (3, 1) := by
      have h2 : _ = some shape := hs
      revert h2; decide +revert
    subst this; decide

end PsVerif

namespace PsVerif

/-! ### the reported sensor count along a history -/

/-- the reported count never exceeds the length of the ranking -/
def Sspor.CountOK (st : Sspor) : Prop :=
  ∀ r, st.ranking = some r → ∃ k, st.nSensors = some k ∧ k ≤ r.length

/-- an accepted `fit` leaves a count that fits the basis matrix it installs -/
theorem fit_ok_count (st : Sspor) (ne nf : Nat) (pf : Bool) (o : List Nat) (hok : (st.fit ne nf pf o).2 = none) :
    ∃ shape k, (st.fit ne nf pf o).1.bm = some shape ∧ (st.fit ne nf pf o).1.nSensors = some k ∧ k ≤ shape.1 := by
  rw [Sspor.fit_eq_tail] at hok ⊢
  generalize (if pf = true then
      (st.basis, if st.basis.fitted.isSome then none else some Err.notFitted)
    else st.basis.fit ne nf) = p at hok ⊢
  obtain ⟨b, e1⟩ := p
  unfold Sspor.fitTail at hok ⊢
  cases e1 with
  | some e => simp at hok
  | none =>
    simp only [] at hok ⊢
    cases hrep : b.rep st.nBasisModes with
    | error e => simp [hrep] at hok
    | ok shape =>
      simp only [hrep] at hok ⊢
      cases hn : st.nSensors with
      | none => exact ⟨shape, shape.1, by simp⟩
      | some k =>
        simp only [hn] at hok ⊢
        cases hd : st.defaulted with
        | true => exact ⟨shape, shape.1, by simp⟩
        | false =>
          simp only [hd] at hok ⊢
          by_cases h : k > shape.1
          · simp [h] at hok
          · refine ⟨shape, k, ?_⟩
            simp [h]
            omega

/-- **C01 (reported count, one call).** An accepted call keeps `CountOK`. -/
theorem step_countOK (st : Sspor) (op : SsporOp) (h : st.CountOK) (hok : (st.step op).2 = none)
    (ho : OracleOK st op) : (st.step op).1.CountOK := by
  have fitcase : ∀ (s : Sspor) (ne nf : Nat) (pf : Bool) (o : List Nat), (s.fit ne nf pf o).2 = none →
      (∀ shape, (s.fit ne nf pf o).1.bm = some shape → o.Perm (List.range shape.1)) → (s.fit ne nf pf o).1.CountOK := by
    intro s ne nf pf o hok' hperm r hr
    obtain ⟨hrk, _⟩ := fit_ok_installs s ne nf pf o hok'
    obtain ⟨shape, k, hbm, hns, hle⟩ := fit_ok_count s ne nf pf o hok'
    rw [hrk] at hr
    have hro : o = r := Option.some.inj hr
    subst hro
    have hl : o.length = shape.1 := by simpa using (hperm shape hbm).length_eq
    exact ⟨k, hns, by omega⟩
  cases op with
  | fit ne nf pf o =>
    simp only [Sspor.step] at hok ⊢
    exact fitcase st ne nf pf o hok (fun shape hbm => ho o rfl shape hbm)
  | updateModes v x o =>
    -- an accepted update is an accepted fit of a re-configured model
    simp only [Sspor.step] at hok ⊢
    have hperm : ∀ shape, (st.updateModes v x o).1.bm = some shape → o.Perm (List.range shape.1) :=
      fun shape hbm => ho o rfl shape hbm
    cases v with
    | other => simp [Sspor.updateModes] at hok
    | int z =>
      by_cases hz : z ≤ 0
      · simp [Sspor.updateModes, hz] at hok
      · cases x with
        | none =>
          simp only [Sspor.updateModes, hz, if_false] at hok hperm ⊢
          cases hnm : st.basis.nModes with
          | none => simp [hnm] at hok
          | some nm =>
            simp only [hnm] at hok hperm ⊢
            by_cases hc : (st.basis.fitted.isSome && decide (z.toNat ≤ nm)) = true
            · rw [if_pos hc] at hok hperm ⊢
              exact fitcase _ _ _ _ _ hok hperm
            · rw [if_neg hc] at hok
              simp at hok
        | some p =>
          obtain ⟨ne, nf⟩ := p
          simp only [Sspor.updateModes, hz, if_false] at hok hperm ⊢
          cases hnm : st.basis.nModes with
          | none =>
            simp only [hnm, Bool.and_false, Bool.false_eq_true, if_false] at hok hperm ⊢
            by_cases hk : z.toNat > ne
            · simp [hk] at hok
            · rw [if_neg hk] at hok hperm ⊢
              exact fitcase _ _ _ _ _ hok hperm
          | some nm =>
            simp only [hnm] at hok hperm ⊢
            by_cases hc : (st.basis.fitted.isSome && decide (z.toNat ≤ nm)) = true
            · rw [if_pos hc] at hok hperm ⊢
              exact fitcase _ _ _ _ _ hok hperm
            · rw [if_neg hc] at hok hperm ⊢
              by_cases hk : z.toNat > ne
              · simp [hk] at hok
              · rw [if_neg hk] at hok hperm ⊢
                exact fitcase _ _ _ _ _ hok hperm
  | setN v =>
    intro r hr
    simp only [Sspor.step] at hok hr ⊢
    have hp := setN_preserves_ranking st v
    rw [hp.1] at hr
    obtain ⟨k, hk, hv⟩ := (setN_ok_iff st v r hr).mp hok
    subst hk
    refine ⟨k, ?_, hv.2⟩
    have hk0 : k ≠ 0 := by omega
    have hle : ¬ ((k : Int) > (r.length : Int)) := by omega
    simp [Sspor.setN, hr, hle, hk0]
  | basisFit ne nf =>
    intro r hr
    simp only [Sspor.step] at hr ⊢
    exact h r hr
  | roundTrip =>
    intro r hr
    simp only [Sspor.step] at hr ⊢
    exact h r hr

/-- **C01 (reported count, every history).** -/
theorem run_countOK (st : Sspor) (ops : List SsporOp) (h : st.CountOK) (hall : AllAccepted st ops) :
    (st.run ops).CountOK := by
  induction ops generalizing st with
  | nil => simpa [Sspor.run] using h
  | cons op ops ih =>
    obtain ⟨hok, ho, hrest⟩ := hall
    have : (st.run (op :: ops)) = ((st.step op).1).run ops := by simp [Sspor.run]
    rw [this]
    exact ih _ (step_countOK st op h hok ho) hrest

/-- consequence: the number of selected sensors IS the reported sensor count -/
theorem selected_length_is_count (st : Sspor) (h : st.CountOK) (sel : List Nat) (hs : st.selected = .ok sel) :
    ∃ k, st.nSensors = some k ∧ sel.length = k := by
  unfold Sspor.selected at hs
  cases hr : st.ranking with
  | none => simp [hr] at hs
  | some r =>
    simp only [hr] at hs
    obtain ⟨k, hk, hle⟩ := h r hr
    refine ⟨k, hk, ?_⟩
    have hsel : sel = selectLead (st.nSensors.getD 0) r := by
      cases hs; rfl
    subst hsel
    simp [hk, selectLead, List.length_take]
    omega

end PsVerif
