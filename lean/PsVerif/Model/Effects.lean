/-
  Effect trees (C19, clause "a rejected setter or update call leaves the model unchanged"): the order of
  state writes (`self.attr = …`) and explicit failure points (`raise …`, `check_is_fitted`) of an entry
  point, with every condition abstracted to a nondeterministic choice.  `harness/translate_effects.py`
  regenerates one tree per setter from the current source (`Generated/Effects.lean`); the generated
  obligation is `eff_<id>.atomic = true` (`decide`), and `atomic_sound` turns it into: along EVERY execution
  of the statements as written, whatever the conditions evaluate to, an explicit rejection happens before
  the first write.  Core Lean only.

  Not modelled: exceptions raised implicitly by the expressions themselves (a comparison of a string with a
  number, a numpy call); those are covered by the executed table of C19 only.
-/
namespace PsVerif

inductive ETree
  | pass
  | fail                       -- `raise E` (always fails) or `check_is_fitted` (may fail)
  | write (attr : String)      -- `self.attr = …`
  | branch (t e : ETree)       -- `if c: t else: e`, condition abstracted
  | seq (a b : ETree)
  deriving Repr, DecidableEq

/-- `Runs t ws failed`: some execution of `t` performs exactly the writes `ws` (in order) and then either
completes (`failed = false`) or is rejected at an explicit failure point (`failed = true`) -/
inductive ETree.Runs : ETree → List String → Bool → Prop
  | pass : Runs .pass [] false
  | failYes : Runs .fail [] true
  | failNo : Runs .fail [] false               -- check_is_fitted on a fitted object
  | write (a : String) : Runs (.write a) [a] false
  | branchL {t e ws b} : Runs t ws b → Runs (.branch t e) ws b
  | branchR {t e ws b} : Runs e ws b → Runs (.branch t e) ws b
  | seqFail {a b ws} : Runs a ws true → Runs (.seq a b) ws true
  | seqOk {a b ws₁ ws₂ r} : Runs a ws₁ false → Runs b ws₂ r → Runs (.seq a b) (ws₁ ++ ws₂) r

def ETree.mayFail : ETree → Bool
  | .pass => false
  | .fail => true
  | .write _ => false
  | .branch t e => t.mayFail || e.mayFail
  | .seq a b => a.mayFail || b.mayFail

def ETree.mayWrite : ETree → Bool
  | .pass => false
  | .fail => false
  | .write _ => true
  | .branch t e => t.mayWrite || e.mayWrite
  | .seq a b => a.mayWrite || b.mayWrite

/-- no execution writes and is rejected afterwards -/
def ETree.atomic : ETree → Bool
  | .pass => true
  | .fail => true
  | .write _ => true
  | .branch t e => t.atomic && e.atomic
  | .seq a b => a.atomic && b.atomic && !(a.mayWrite && b.mayFail)

theorem ETree.runs_fail_mayFail' {t : ETree} {ws : List String} {b : Bool} (h : t.Runs ws b) :
    b = true → t.mayFail = true := by
  induction h with
  | pass => intro hb; cases hb
  | failYes => intro _; rfl
  | failNo => intro hb; cases hb
  | write a => intro hb; cases hb
  | branchL _ ih => intro hb; simp [ETree.mayFail, ih hb]
  | branchR _ ih => intro hb; simp [ETree.mayFail, ih hb]
  | seqFail _ ih => intro _; simp [ETree.mayFail, ih rfl]
  | seqOk _ _ _ ih2 => intro hb; simp [ETree.mayFail, ih2 hb]

theorem ETree.runs_fail_mayFail {t : ETree} {ws : List String} (h : t.Runs ws true) : t.mayFail = true :=
  ETree.runs_fail_mayFail' h rfl

theorem ETree.runs_writes_mayWrite {t : ETree} {ws : List String} {b : Bool} (h : t.Runs ws b) (hne : ws ≠ []) :
    t.mayWrite = true := by
  induction h with
  | pass => exact absurd rfl hne
  | failYes => exact absurd rfl hne
  | failNo => exact absurd rfl hne
  | write a => rfl
  | branchL _ ih => simp [ETree.mayWrite, ih hne]
  | branchR _ ih => simp [ETree.mayWrite, ih hne]
  | seqFail _ ih => simp [ETree.mayWrite, ih hne]
  | @seqOk a b ws₁ ws₂ r _ _ ih1 ih2 =>
    by_cases h1 : ws₁ = []
    · have h2 : ws₂ ≠ [] := by
        intro h2; apply hne; simp [h1, h2]
      simp [ETree.mayWrite, ih2 h2]
    · simp [ETree.mayWrite, ih1 h1]

/-- **C19 (rejected calls change nothing, translated).** If the tree read off the source is `atomic`, every
execution that ends in an explicit rejection has written nothing. -/
theorem ETree.atomic_sound' {t : ETree} {ws : List String} {b : Bool} (h : t.Runs ws b) :
    t.atomic = true → b = true → ws = [] := by
  induction h with
  | pass => intros; rfl
  | failYes => intros; rfl
  | failNo => intros; rfl
  | write a => intro _ hb; cases hb
  | branchL _ ih =>
    intro hat hb
    simp only [ETree.atomic, Bool.and_eq_true] at hat
    exact ih hat.1 hb
  | branchR _ ih =>
    intro hat hb
    simp only [ETree.atomic, Bool.and_eq_true] at hat
    exact ih hat.2 hb
  | seqFail _ ih =>
    intro hat _
    simp only [ETree.atomic, Bool.and_eq_true] at hat
    exact ih hat.1.1 rfl
  | @seqOk a b ws₁ ws₂ r h1 h2 _ ih2 =>
    intro hat hb
    simp only [ETree.atomic, Bool.and_eq_true, Bool.not_eq_true', Bool.and_eq_false_iff] at hat
    have hw2 : ws₂ = [] := ih2 hat.1.2 hb
    have hf : b.mayFail = true := ETree.runs_fail_mayFail' h2 hb
    have hw1 : ws₁ = [] := by
      by_cases hne : ws₁ = []
      · exact hne
      · have := ETree.runs_writes_mayWrite h1 hne
        rcases hat.2 with h | h
        · rw [this] at h; cases h
        · rw [hf] at h; cases h
    simp [hw1, hw2]

/-- **C19 (rejected calls change nothing, translated).** If the tree read off the source is `atomic`, every
execution that ends in an explicit rejection has written nothing. -/
theorem ETree.atomic_sound {t : ETree} (hat : t.atomic = true) {ws : List String} (h : t.Runs ws true) : ws = [] :=
  ETree.atomic_sound' h hat rfl

/-- the witness that the analysis is not vacuous: validate-after-assign is rejected … -/
example : (ETree.seq (.write "n_sensors") (.branch .fail .pass)).atomic = false := by decide
/-- … and really has an execution that writes and is then rejected -/
example : (ETree.seq (.write "n_sensors") (.branch .fail .pass)).Runs ["n_sensors"] true :=
  .seqOk (.write _) (.branchL .failYes)
/-- validate-then-assign (the shape of `SSPOR.set_number_of_sensors`) is accepted -/
example : (ETree.seq .fail (.branch .fail (.branch .fail (.seq (.write "n_sensors") (.write "_n_sensors_defaulted"))))).atomic = true := by
  decide

end PsVerif
