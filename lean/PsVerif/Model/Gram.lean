/-
  L2 model: exact linear algebra over `Rat` (Lean core's rationals, no import).
  The state of pivoted Householder QR that matters for *which sensor is chosen* is the Gram
  matrix of the residual sensor rows; a Householder step acts on it as a Schur complement.
-/
namespace PsVerif

abbrev RMat := Array (Array Rat)

namespace RMat
def get (M : RMat) (i j : Nat) : Rat := (M.getD i #[]).getD j 0
def ofFn (n m : Nat) (f : Nat → Nat → Rat) : RMat :=
  Array.ofFn (n := n) fun i => Array.ofFn (n := m) fun j => f i.val j.val
def row (M : RMat) (i : Nat) : List Rat := (M.getD i #[]).toList
def nrows (M : RMat) : Nat := M.size
def ncols (M : RMat) : Nat := (M.getD 0 #[]).size
def transpose (M : RMat) : RMat := ofFn M.ncols M.nrows fun i j => M.get j i
def mul (A B : RMat) : RMat :=
  ofFn A.nrows B.ncols fun i j => (List.range A.ncols).foldl (fun acc l => acc + A.get i l * B.get l j) 0
def takeCols (M : RMat) (k : Nat) : RMat := M.map fun r => r.extract 0 k
def gatherRows (M : RMat) (idx : List Nat) : RMat := (idx.map fun i => M.getD i #[]).toArray
end RMat

/-- dot product of two coefficient rows -/
def dotL : List Rat → List Rat → Rat
  | a :: as, b :: bs => a * b + dotL as bs
  | _, _ => 0

/-- Gram matrix of the sensor rows of the basis matrix `B` (rows = sensors). -/
def gram (B : RMat) : RMat := RMat.ofFn B.size B.size fun a b => dotL (B.row a) (B.row b)

/-- Schur-complement step: ranking sensor `q` removes from every residual its component along
the residual of `q`.  A sensor whose residual is exactly zero removes nothing. -/
def schur (G : RMat) (q : Nat) : RMat :=
  let d := G.get q q
  if d = 0 then G
  else RMat.ofFn G.size G.size fun a b => G.get a b - G.get a q * G.get q b / d

/-- Exact decision of `√a − c ≥ √b − d` for `a, b ≥ 0` (proved against `Real.sqrt` in
`Props/C04.lean`): squaring with case analysis on the sign of `c − d`. -/
def geSqrt (a c b d : Rat) : Bool :=
  let t := c - d
  if t ≥ 0 then
    let u := a - b - t * t
    decide (u ≥ 0) && decide (u * u ≥ 4 * t * t * b)
  else
    let s := -t
    let v := b - a - s * s
    decide (v ≤ 0) || decide (4 * s * s * a ≥ v * v)

/-- numpy `argmax` for a "greater-or-equal" test: index of the first element that no other
element strictly beats (the incumbent is replaced only when strictly beaten). -/
def firstArgmaxByAux {α : Type} (ge : α → α → Bool) : Nat → α → Nat → List α → Nat
  | bi, _, _, [] => bi
  | bi, bv, i, x :: xs => if ge bv x then firstArgmaxByAux ge bi bv (i + 1) xs
                          else firstArgmaxByAux ge i x (i + 1) xs
def firstArgmaxBy {α : Type} (ge : α → α → Bool) : List α → Nat
  | [] => 0
  | x :: xs => firstArgmaxByAux ge 0 x 1 xs

def firstArgmax (vs : List Rat) : Nat := firstArgmaxBy (fun a b => decide (a ≥ b)) vs

/-- score of a candidate in the cost-biased pivot rule: (squared residual norm, cost);
ordered by `√norm2 − cost`. -/
abbrev Score := Rat × Rat
def scoreGe (x y : Score) : Bool := geSqrt x.1 x.2 y.1 y.2

/-- zero pattern over the candidates `p[j:]` at step `j` (true = norm is zeroed). -/
abbrev Mask := Nat → Array Nat → List Bool
def noMask : Mask := fun j p => (p.toList.drop j).map fun _ => false

structure GState where
  G : RMat
  p : Array Nat

/-- masked scores of the candidates `p[j:]`: `(norm², cost)`; a masked candidate has norm 0. -/
def candScores (st : GState) (costs : Nat → Rat) (mask : Mask) (j : Nat) : List Score :=
  List.zipWith (fun c z => ((if z then 0 else st.G.get c c), costs c))
    (st.p.toList.drop j) (mask j st.p ++ List.replicate st.p.size false)

/-- apply the pivot at position `i ≥ j`: swap and eliminate -/
def applyPivot (st : GState) (j i : Nat) : GState :=
  if h : j < st.p.size ∧ i < st.p.size then
    { G := schur st.G st.p[i], p := st.p.swap j i h.1 h.2 }
  else st

/-- one greedy step: pivot = first argmax of `√norm2 − cost` over the (masked) candidates -/
def greedyStep (costs : Nat → Rat) (mask : Mask) (st : GState) (j : Nat) : GState :=
  applyPivot st j (j + firstArgmaxBy scoreGe (candScores st costs mask j))

def initState (B : RMat) : GState := { G := gram B, p := Array.range B.size }

def greedyRun (costs : Nat → Rat) (mask : Mask) (B : RMat) (k : Nat) : GState :=
  (List.range k).foldl (greedyStep costs mask) (initState B)

def kOf (B : RMat) : Nat := min B.nrows B.ncols

/-- the three optimizers, exact-arithmetic meaning of their first `k` picks -/
def qrModel (B : RMat) : List Nat := (greedyRun (fun _ => 0) noMask B (kOf B)).p.toList
def ccqrModel (costs : List Rat) (B : RMat) : List Nat :=
  (greedyRun (fun c => costs.getD c 0) noMask B (kOf B)).p.toList
def gqrModel (mask : Mask) (B : RMat) : List Nat :=
  (greedyRun (fun _ => 0) mask B (kOf B)).p.toList

/-- verdict of one replayed step -/
structure StepVerdict where
  ok : Bool          -- the chosen candidate is within `δ` of the best (masked) score
  chosen : Nat       -- sensor id chosen
  chosenN2 : Rat     -- its exact squared residual norm (unmasked)
  chosenMasked : Bool
  bestOff : Nat      -- exact first argmax offset
  uniq : Bool        -- exact choice is unique by more than `δ` (every other candidate loses by > δ)
  candN2 : List Rat  -- exact squared residual norms of all candidates `p[j:]` (unmasked)

/-- Replay a recorded trace of offsets under the exact model, judging every step:
the chosen candidate must satisfy `√n2 − c ≥ √n2' − c' − δ` against every candidate. -/
def replayStep (costs : Nat → Rat) (mask : Mask) (δ : Rat) (st : GState) (j off : Nat) :
    GState × StepVerdict :=
  let sc := candScores st costs mask j
  let cands := st.p.toList.drop j
  let ch := sc.getD off (0, 0)
  let ok := decide (off < sc.length) && sc.all fun y => geSqrt ch.1 ch.2 y.1 (y.2 + δ)
  let best := firstArgmaxBy scoreGe sc
  let bs := sc.getD best (0, 0)
  let uniq := (List.range sc.length).all fun i =>
    i == best || !(geSqrt (sc.getD i (0,0)).1 (sc.getD i (0,0)).2 bs.1 (bs.2 + δ))
  let c := cands.getD off 0
  let zs := mask j st.p
  (applyPivot st j (j + off),
   { ok := ok, chosen := c, chosenN2 := st.G.get c c, chosenMasked := zs.getD off false,
     bestOff := best, uniq := uniq, candN2 := cands.map fun c => st.G.get c c })

def replay (costs : Nat → Rat) (mask : Mask) (δ : Rat) (B : RMat) (tr : List Nat) :
    GState × List StepVerdict :=
  let rec go (st : GState) (j : Nat) : List Nat → List StepVerdict → GState × List StepVerdict
    | [], acc => (st, acc.reverse)
    | off :: rest, acc =>
      let (st', v) := replayStep costs mask δ st j off
      go st' (j + 1) rest (v :: acc)
  go (initState B) 0 tr []

def accepts (costs : Nat → Rat) (mask : Mask) (δ : Rat) (B : RMat) (tr : List Nat) : Bool :=
  (replay costs mask δ B tr).2.all (·.ok)

end PsVerif
