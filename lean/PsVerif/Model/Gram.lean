/-
  L2 model: exact linear algebra over `Rat` (Lean core's rationals, no import).
  The state of pivoted Householder QR that matters for *which sensor is chosen* is the Gram
  matrix of the residual sensor rows; a Householder step acts on it as a Schur complement.
-/
namespace PsVerif

abbrev RMat := Array (Array Rat)

namespace RMat
def get (M : RMat) (i j : Nat) : Rat := (M.getD i #[]).getD j 0
def ofFn (n m : Nat) (f : Nat → Nat → Rat) : RMat :=
  Array.ofFn (n := n) fun i => Array.ofFn (n := m) fun j => f i.val j.val
def row (M : RMat) (i : Nat) : List Rat := (M.getD i #[]).toList
def nrows (M : RMat) : Nat := M.size
def ncols (M : RMat) : Nat := (M.getD 0 #[]).size
def transpose (M : RMat) : RMat := ofFn M.ncols M.nrows fun i j => M.get j i
def mul (A B : RMat) : RMat :=
  ofFn A.nrows B.ncols fun i j => (List.range A.ncols).foldl (fun acc l => acc + A.get i l * B.get l j) 0
def takeCols (M : RMat) (k : Nat) : RMat := M.map fun r => r.extract 0 k
def gatherRows (M : RMat) (idx : List Nat) : RMat := (idx.map fun i => M.getD i #[]).toArray
end RMat

/-- dot product of two coefficient rows -/
def dotL : List Rat → List Rat → Rat
  | a :: as, b :: bs => a * b + dotL as bs
  | _, _ => 0

/-- Gram matrix of the sensor rows of the basis matrix `B` (rows = sensors). -/
def gram (B : RMat) : RMat := RMat.ofFn B.size B.size fun a b => dotL (B.row a) (B.row b)

/-- Schur-complement step: ranking sensor `q` removes from every residual its component along
the residual of `q`.  A sensor whose residual is exactly zero removes nothing. -/
def schur (G : RMat) (q : Nat) : RMat :=
  let d := G.get q q
  if d = 0 then G
  else RMat.ofFn G.size G.size fun a b => G.get a b - G.get a q * G.get q b / d

/-- Exact decision of `√a − c ≥ √b − d` for `a, b ≥ 0` (proved against `Real.sqrt` in
`Props/C04.lean`): squaring with case analysis on the sign of `c − d`. -/
def geSqrt (a c b d : Rat) : Bool :=
  let t := c - d
  if t ≥ 0 then
    let u := a - b - t * t
    decide (u ≥ 0) && decide (u * u ≥ 4 * t * t * b)
  else
    let s := -t
    let v := b - a - s * s
    decide (v ≤ 0) || decide (4 * s * s * a ≥ v * v)

/-- numpy `argmax` for a "greater-or-equal" test: index of the first element that no other
element strictly beats (the incumbent is replaced only when strictly beaten). -/
def firstArgmaxByAux {α : Type} (ge : α → α → Bool) : Nat → α → Nat → List α → Nat
  | bi, _, _, [] => bi
  | bi, bv, i, x :: xs => if ge bv x then firstArgmaxByAux ge bi bv (i + 1) xs
                          else firstArgmaxByAux ge i x (i + 1) xs
def firstArgmaxBy {α : Type} (ge : α → α → Bool) : List α → Nat
  | [] => 0
  | x :: xs => firstArgmaxByAux ge 0 x 1 xs

def firstArgmax (vs : List Rat) : Nat := firstArgmaxBy (fun a b => decide (a ≥ b)) vs

/-- score of a candidate in the cost-biased pivot rule: (squared residual norm, cost);
ordered by `√norm2 − cost`. -/
abbrev Score := Rat × Rat
def scoreGe (x y : Score) : Bool := geSqrt x.1 x.2 y.1 y.2

/-- zero pattern over the candidates `p[j:]` at step `j` (true = norm is zeroed). -/
abbrev Mask := Nat → Array Nat → List Bool
def noMask : Mask := fun j p => (p.toList.drop j).map fun _ => false

/-- All linear algebra lives behind these two functions: the squared residual norm of a sensor and
the elimination of a ranked sensor.  The Gram/Schur model `gramSys` is one instance; the
combinatorial theorems (C03–C06) hold for every instance. -/
structure ResidSys (σ : Type) where
  norm2 : σ → Nat → Rat
  elim : σ → Nat → σ

def gramSys : ResidSys RMat := { norm2 := fun G c => G.get c c, elim := schur }

structure GState (σ : Type) where
  lin : σ
  p : Array Nat

variable {σ : Type}

/-- masked scores of the candidates `p[j:]`: `(norm², cost)`; a masked candidate has norm 0. -/
def candScores (S : ResidSys σ) (st : GState σ) (costs : Nat → Rat) (mask : Mask) (j : Nat) :
    List Score :=
  List.zipWith (fun c z => ((if z then 0 else S.norm2 st.lin c), costs c))
    (st.p.toList.drop j) (mask j st.p ++ List.replicate st.p.size false)

/-- apply the pivot at position `i ≥ j`: swap and eliminate -/
def applyPivot (S : ResidSys σ) (st : GState σ) (j i : Nat) : GState σ :=
  if h : j < st.p.size ∧ i < st.p.size then
    { lin := S.elim st.lin st.p[i], p := st.p.swap j i h.1 h.2 }
  else st

/-- one greedy step: pivot = first argmax of `√norm2 − cost` over the (masked) candidates -/
def greedyStep (S : ResidSys σ) (costs : Nat → Rat) (mask : Mask) (st : GState σ) (j : Nat) :
    GState σ :=
  applyPivot S st j (j + firstArgmaxBy scoreGe (candScores S st costs mask j))

def greedyRunFrom (S : ResidSys σ) (costs : Nat → Rat) (mask : Mask) (s0 : σ) (n k : Nat) :
    GState σ :=
  (List.range k).foldl (greedyStep S costs mask) { lin := s0, p := Array.range n }

def greedyRun (costs : Nat → Rat) (mask : Mask) (B : RMat) (k : Nat) : GState RMat :=
  greedyRunFrom gramSys costs mask (gram B) B.size k

def kOf (B : RMat) : Nat := min B.nrows B.ncols

/-- the three optimizers, exact-arithmetic meaning of their first `k` picks -/
def qrModel (B : RMat) : List Nat := (greedyRun (fun _ => 0) noMask B (kOf B)).p.toList
def ccqrModel (costs : List Rat) (B : RMat) : List Nat :=
  (greedyRun (fun c => costs.getD c 0) noMask B (kOf B)).p.toList
def gqrModel (mask : Mask) (B : RMat) : List Nat :=
  (greedyRun (fun _ => 0) mask B (kOf B)).p.toList

/-- verdict of one replayed step -/
structure StepVerdict where
  ok : Bool          -- the chosen candidate is within `δ` of the best (masked) score
  chosen : Nat       -- sensor id chosen
  chosenN2 : Rat     -- its exact squared residual norm (unmasked)
  chosenMasked : Bool
  bestOff : Nat      -- exact first argmax offset
  uniq : Bool        -- exact choice is unique by more than `δ` (every other candidate loses by > δ)
  candN2 : List Rat  -- exact squared residual norms of all candidates `p[j:]` (unmasked)

/-- `δ`-acceptance of offset `off` at step `j`: the chosen candidate must satisfy
`√n2 − c ≥ √n2' − c' − δ` against every candidate. -/
def acceptsStep (S : ResidSys σ) (costs : Nat → Rat) (mask : Mask) (δ : Rat) (st : GState σ)
    (j off : Nat) : Bool :=
  let sc := candScores S st costs mask j
  let ch := sc.getD off (0, 0)
  decide (off < sc.length) && sc.all fun y => geSqrt ch.1 ch.2 y.1 (y.2 + δ)

/-- Replay one recorded offset under the exact model, judging the step. -/
def replayStep (S : ResidSys σ) (costs : Nat → Rat) (mask : Mask) (δ : Rat) (st : GState σ)
    (j off : Nat) : GState σ × StepVerdict :=
  let sc := candScores S st costs mask j
  let cands := st.p.toList.drop j
  let best := firstArgmaxBy scoreGe sc
  let bs := sc.getD best (0, 0)
  let uniq := (List.range sc.length).all fun i =>
    i == best || !(geSqrt (sc.getD i (0,0)).1 (sc.getD i (0,0)).2 bs.1 (bs.2 + δ))
  let c := cands.getD off 0
  let zs := mask j st.p
  (applyPivot S st j (j + off),
   { ok := acceptsStep S costs mask δ st j off, chosen := c, chosenN2 := S.norm2 st.lin c,
     chosenMasked := zs.getD off false, bestOff := best, uniq := uniq,
     candN2 := cands.map fun c => S.norm2 st.lin c })

/-- replay with one acceptance budget per step (`δs[j]`, the last one repeated): the budget of a step may
depend on how small the earlier pivots were (conditioning of the elimination so far) -/
def replayGo (S : ResidSys σ) (costs : Nat → Rat) (mask : Mask) (δs : List Rat) :
    GState σ → Nat → List Nat → List StepVerdict → GState σ × List StepVerdict
  | st, _, [], acc => (st, acc.reverse)
  | st, j, off :: rest, acc =>
    let r := replayStep S costs mask (δs.getD j (δs.getLastD 0)) st j off
    replayGo S costs mask δs r.1 (j + 1) rest (r.2 :: acc)

def replay (costs : Nat → Rat) (mask : Mask) (δs : List Rat) (B : RMat) (tr : List Nat) :
    GState RMat × List StepVerdict :=
  replayGo gramSys costs mask δs { lin := gram B, p := Array.range B.size } 0 tr []

def accepts (costs : Nat → Rat) (mask : Mask) (δ : Rat) (B : RMat) (tr : List Nat) : Bool :=
  (replay costs mask [δ] B tr).2.all (·.ok)

end PsVerif
