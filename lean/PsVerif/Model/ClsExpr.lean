/-
  Target language of `harness/translate_classification.py` (C09 / C10): the dispatch of `SSPOC.predict`, what `SSPOC.fit` trains the
  classifier on, which solver produces the sensor weights, and the refit block of `update_sensors`, as read off the current source.
  The dispatch has an evaluation that is `Sspoc.predictKind` of `Model/Sspoc.lean` (the object of `dispatch_consistent`).  Core Lean only.
-/
import PsVerif.Model.Sspoc
namespace PsVerif

/-- one arm of `predict`, in source order -/
inductive PredArm
  | fittedFirst                 -- check_is_fitted(self, "sensor_coef_")
  | zeroSensorsDummy            -- if self.n_sensors == 0: return self.dummy_.predict(np.zeros(len(x)))
  | refitRaw                    -- if self.refit_: return self.classifier.predict(x)
  | elseProjected               -- else: return self.classifier.predict(np.dot(x, self.basis_matrix_inverse_.T))
  deriving DecidableEq, Repr

inductive SolverE
  | binaryWhenTwoClasses        -- n_classes == 2 → constrained_binary_solve(w, Ψ⁻¹, quiet, **kws)
  deriving DecidableEq, Repr

structure ClsProg where
  predict : List PredArm
  fitTrainsOnBasisCoordinates : Bool      -- classifier.fit(np.matmul(x, basis_matrix_inverse_.T), y)  (both `quiet` branches)
  fitResetsRefitFlag : Bool               -- self.refit_ = False right after it
  weightsAreSqueezedCoefTransposed : Bool -- w = np.squeeze(self.classifier.coef_).T
  nClassesIsDistinctLabels : Bool         -- n_classes = len(set(y[:]))
  solverDispatch : SolverE
  multiclassAlphaIsL1Penalty : Bool       -- constrained_multiclass_solve(w, Ψ⁻¹, alpha=self.l1_penalty, quiet, **kws)
  storesCoefThenUpdatesSensors : Bool     -- sensor_coef_ = s; sparse_sensors_ = []; update_sensors(n_sensors=self.n_sensors, threshold, xy=(x, y) if refit else None)
  dummyIsStratifiedOnLabels : Bool        -- DummyClassifier(strategy="stratified").fit(x[:, 0], y), rebuilt by every fit
  updateRefitsOnSelectedColumns : Bool    -- if xy is not None and n_sensors > 0: classifier.fit(x[:, sparse_sensors_], y); refit_ = True
  deriving DecidableEq, Repr

def ClsProg.spec : ClsProg :=
  { predict := [.fittedFirst, .zeroSensorsDummy, .refitRaw, .elseProjected], fitTrainsOnBasisCoordinates := true, fitResetsRefitFlag := true,
    weightsAreSqueezedCoefTransposed := true, nClassesIsDistinctLabels := true, solverDispatch := .binaryWhenTwoClasses,
    multiclassAlphaIsL1Penalty := true, storesCoefThenUpdatesSensors := true, dummyIsStratifiedOnLabels := true,
    updateRefitsOnSelectedColumns := true }

/-- running the arms in order on a model state -/
def predArms (st : Sspoc) : List PredArm → PredictKind
  | [] => .projected
  | .fittedFirst :: rest => if !st.fitted then .notFitted else predArms st rest
  | .zeroSensorsDummy :: rest => if st.nSensors = some (.int 0) then .dummy else predArms st rest
  | .refitRaw :: rest => if st.refit then .raw else predArms st rest
  | .elseProjected :: _ => .projected

/-- **the specification's dispatch is `Sspoc.predictKind`** -/
theorem ClsProg.spec_predict (st : Sspoc) : predArms st ClsProg.spec.predict = st.predictKind := by
  unfold ClsProg.spec Sspoc.predictKind
  simp only [predArms]

end PsVerif
