/-
  L0 model of `pysensors/utils/_norm_calc.py`: the three mask functions used by `GQR.fit`.
  Transcribed with their quirks:
  * `n_sensors ∈ {None, 0}` ⇒ `len(all_sensors)` (exact_n, max_n only);
  * `count` is taken from `all_sensors[:j]` (the *unconstrained* ranking), not from `piv[:j]`;
  * max_n's `for i in range(n_sensors)` loop re-applies one and the same zeroing, so its net
    effect is "if more than `s` region sensors occur among `all_sensors[:N]`, zero the
    candidates that are region sensors of `all_sensors` beyond the first `s`";
  * predetermined's window `N - s ≤ j ≤ N` is inclusive on both sides;
  * Python ints are `Int` where a subtraction can go negative.
  Inputs on which the code itself fails (all_sensors not an ndarray permutation, `N > len A`,
  `n_sensors = None` for predetermined, negative `s`) are outside the domain: `none`.
-/
import PsVerif.Model.Gram
namespace PsVerif

/-- `np.isin(x, lin_idx)` for a scalar -/
def inL (L : List Nat) (c : Nat) : Bool := L.contains c

/-- effective `n_sensors` of exact_n / max_n -/
def effN (nSensors : Option Nat) (A : List Nat) : Nat :=
  match nSensors with
  | none => A.length
  | some 0 => A.length
  | some n => n

/-- number of region sensors among the first `N` of the unconstrained ranking -/
def regionCount (L A : List Nat) (N : Nat) : Nat := (A.take N).countP (inL L)

/-- region sensors of the unconstrained ranking beyond the first `s`
(`all_sensors[mask][n_const_sensors:]`) -/
def bannedOf (L A : List Nat) (s : Nat) : List Nat := (A.filter (inL L)).drop s

def maxNZeros (L A : List Nat) (s N : Nat) (cands : List Nat) : List Bool :=
  let banned := bannedOf L A s
  cands.map fun c => decide (regionCount L A N > s) && banned.contains c

def exactNZeros (L A : List Nat) (s N j : Nat) (cands : List Nat) : List Bool :=
  let t := regionCount L A N
  let cnt := regionCount L A j
  if t < s then
    let forced := decide ((N : Int) > j ∧ (j : Int) ≥ (N : Int) - ((s : Int) - (cnt : Int)))
    cands.map fun c => forced && !(inL L c)
  else maxNZeros L A s N cands

def predeterminedZeros (L : List Nat) (s N j : Nat) (cands : List Nat) : List Bool :=
  let inv := decide ((N : Int) - (s : Int) ≤ (j : Int) ∧ j ≤ N)
  cands.map fun c => (inL L c) != inv

inductive COption | unconstrained | maxN | exactN | predetermined
  deriving DecidableEq, Repr

/-- `GQR`'s keyword state relevant to the masks -/
structure GqrCfg where
  opt : COption
  L : List Nat            -- idx_constrained
  s : Nat                 -- n_const_sensors
  A : List Nat            -- all_sensors (the unconstrained ranking)
  nSensors : Option Nat   -- n_sensors

/-- the mask (zero pattern over `p[j:]`) the configured function produces at step `j` -/
def GqrCfg.mask (cfg : GqrCfg) : Mask := fun j p =>
  let cands := p.toList.drop j
  match cfg.opt with
  | .unconstrained => cands.map fun _ => false
  | .maxN => maxNZeros cfg.L cfg.A cfg.s (effN cfg.nSensors cfg.A) cands
  | .exactN => exactNZeros cfg.L cfg.A cfg.s (effN cfg.nSensors cfg.A) j cands
  | .predetermined => predeterminedZeros cfg.L cfg.s (cfg.nSensors.getD 0) j cands

/-- the domain on which the Python functions run without raising -/
def GqrCfg.inDomain (cfg : GqrCfg) : Bool :=
  match cfg.opt with
  | .unconstrained => true
  | .maxN | .exactN => decide (effN cfg.nSensors cfg.A ≤ cfg.A.length)
  | .predetermined => cfg.nSensors.isSome

end PsVerif
