/-
  L0 model of `pysensors/utils/_norm_calc.py`: the three mask functions used by `GQR.fit`.
  Transcribed with their quirks:
  * `n_sensors ∈ {None, 0}` ⇒ `len(all_sensors)` (exact_n, max_n only);
  * `count` is taken from `all_sensors[:j]` (the *unconstrained* ranking), not from `piv[:j]`;
  * max_n's `for i in range(n_sensors)` loop re-applies one and the same zeroing, so its net
    effect is "if more than `s` region sensors occur among `all_sensors[:N]`, zero the
    candidates that are region sensors of `all_sensors` beyond the first `s`";
  * predetermined's window `N - s ≤ j ≤ N` is inclusive on both sides;
  * Python ints are `Int` where a subtraction can go negative.
  Inputs on which the code itself fails (all_sensors not an ndarray permutation, `N > len A`,
  `n_sensors = None` for predetermined, negative `s`) are outside the domain: `none`.
-/
import PsVerif.Model.Gram
namespace PsVerif

/-- `np.isin(x, lin_idx)` for a scalar -/
def inL (L : List Nat) (c : Nat) : Bool := L.contains c

/-- effective `n_sensors` of exact_n / max_n -/
def effN (nSensors : Option Nat) (A : List Nat) : Nat :=
  match nSensors with
  | none => A.length
  | some 0 => A.length
  | some n => n

/-- number of region sensors among the first `N` of the unconstrained ranking -/
def regionCount (L A : List Nat) (N : Nat) : Nat := (A.take N).countP (inL L)

/-- region sensors of the unconstrained ranking beyond the first `s`
(`all_sensors[mask][n_const_sensors:]`) -/
def bannedOf (L A : List Nat) (s : Nat) : List Nat := (A.filter (inL L)).drop s

/-- `max_n`: is candidate `c` zeroed?  (independent of the step) -/
def maxNMasked (L A : List Nat) (s N : Nat) (c : Nat) : Bool :=
  decide (regionCount L A N > s) && (bannedOf L A s).contains c

/-- `exact_n`: is candidate `c` zeroed at step `j`? -/
def exactNMasked (L A : List Nat) (s N j : Nat) (c : Nat) : Bool :=
  let t := regionCount L A N
  let cnt := regionCount L A j
  if t < s then
    decide ((N : Int) > j ∧ (j : Int) ≥ (N : Int) - ((s : Int) - (cnt : Int))) && !(inL L c)
  else maxNMasked L A s N c

/-- `predetermined`: is candidate `c` zeroed at step `j`?  (`invert` inside the inclusive window) -/
def predMasked (L : List Nat) (s N j : Nat) (c : Nat) : Bool :=
  (inL L c) != decide ((N : Int) - (s : Int) ≤ (j : Int) ∧ j ≤ N)

def maxNZeros (L A : List Nat) (s N : Nat) (cands : List Nat) : List Bool :=
  cands.map (maxNMasked L A s N)
def exactNZeros (L A : List Nat) (s N j : Nat) (cands : List Nat) : List Bool :=
  cands.map (exactNMasked L A s N j)
def predeterminedZeros (L : List Nat) (s N j : Nat) (cands : List Nat) : List Bool :=
  cands.map (predMasked L s N j)

inductive COption | unconstrained | maxN | exactN | predetermined
  deriving DecidableEq, Repr

/-- `GQR`'s keyword state relevant to the masks -/
structure GqrCfg where
  opt : COption
  L : List Nat            -- idx_constrained
  s : Nat                 -- n_const_sensors
  A : List Nat            -- all_sensors (the unconstrained ranking)
  nSensors : Option Nat   -- n_sensors

/-- is candidate `c` zeroed at step `j` under the configured option? -/
def GqrCfg.masked (cfg : GqrCfg) (j c : Nat) : Bool :=
  match cfg.opt with
  | .unconstrained => false
  | .maxN => maxNMasked cfg.L cfg.A cfg.s (effN cfg.nSensors cfg.A) c
  | .exactN => exactNMasked cfg.L cfg.A cfg.s (effN cfg.nSensors cfg.A) j c
  | .predetermined => predMasked cfg.L cfg.s (cfg.nSensors.getD 0) j c

/-- a mask given candidate by candidate -/
def pmask (φ : Nat → Nat → Bool) : Mask := fun j p => (p.toList.drop j).map (φ j)

/-- the mask (zero pattern over `p[j:]`) the configured function produces at step `j` -/
def GqrCfg.mask (cfg : GqrCfg) : Mask := pmask cfg.masked

/-- the domain on which the Python functions run without raising -/
def GqrCfg.inDomain (cfg : GqrCfg) : Bool :=
  match cfg.opt with
  | .unconstrained => true
  | .maxN => decide (effN cfg.nSensors cfg.A ≤ cfg.A.length)
  -- exact_n only walks through `all_sensors` when it hands over to max_n; while fewer than `s` region sensors are among the
  -- first N of the supplied ranking (in particular when the optional ranking is omitted, `[]`) it just slices it
  | .exactN => decide (regionCount cfg.L cfg.A (effN cfg.nSensors cfg.A) < cfg.s) ||
      decide (effN cfg.nSensors cfg.A ≤ cfg.A.length)
  | .predetermined => cfg.nSensors.isSome

end PsVerif
