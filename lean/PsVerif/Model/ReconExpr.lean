/-
  Target language of `harness/translate_recon.py` (C02 / C07): the dispatch of `SSPOR.predict` and the two reconstruction
  formulas (`_square_predict`, `_rectangular_predict`) as read off the current source, with an evaluation that takes the two
  linear solvers as parameters.  With the certifying exact solvers of `Model/Recon.lean` the specification program is
  `predictExact` – the function the theorems of `Props/C02.lean` / `Props/C07.lean` and the correspondence runs are about.
  Core Lean only.
-/
import PsVerif.Model.Recon
namespace PsVerif

inductive SolverK
  | solve        -- scipy.linalg.solve(A, x, **solve_kws)
  | lstsq0       -- scipy.linalg.lstsq(A, x, **solve_kws)[0]
  deriving DecidableEq, Repr

/-- `np.dot(self.basis_matrix_, <solver>(self.basis_matrix_[sensors, :], x, **solve_kws)).T` -/
structure ReconPath where
  solver : SolverK
  systemIsGatheredSensorRows : Bool      -- the system matrix is basis_matrix_[sensors, :]
  rhsIsMeasurements : Bool               -- the right-hand side is x as handed over (already transposed by predict)
  passesSolverKeywords : Bool            -- **solve_kws forwarded, nothing added
  leftMultipliedByBasis : Bool           -- np.dot(self.basis_matrix_, ·)
  resultTransposed : Bool                -- (…).T
  deriving DecidableEq, Repr

inductive DispatchE
  | nSensorsEqNModes      -- self.n_sensors == self.basis_matrix_.shape[1]
  deriving DecidableEq, Repr

structure ReconProg where
  measurementsValidatedAndTransposed : Bool   -- x = validate_input(x, ranked[: n_sensors]).T
  sensorsArePrefixOfRanking : Bool            -- both paths receive ranked[: n_sensors]
  squareWhen : DispatchE
  square : ReconPath
  rect : ReconPath
  deriving DecidableEq, Repr

def ReconProg.spec : ReconProg :=
  { measurementsValidatedAndTransposed := true, sensorsArePrefixOfRanking := true, squareWhen := .nSensorsEqNModes,
    square := ⟨.solve, true, true, true, true, true⟩, rect := ⟨.lstsq0, true, true, true, true, true⟩ }

/-- evaluation with the solvers as parameters; `Y` = measurements, n_sensors × batch (as after the `.T` in `predict`);
the result is n_features × batch (the code's final `.T` turns it into batch × n_features) -/
def ReconPath.eval (solve lstsq : RMat → RMat → Option RMat) (B : RMat) (sensors : List Nat) (Y : RMat) (p : ReconPath) : Option RMat :=
  let M := if p.systemIsGatheredSensorRows then B.gatherRows sensors else B
  let C := match p.solver with
    | .solve => solve M Y
    | .lstsq0 => lstsq M Y
  C.map fun C => if p.leftMultipliedByBasis then B.mul C else C

def ReconProg.eval (solve lstsq : RMat → RMat → Option RMat) (B : RMat) (sensors : List Nat) (Y : RMat) (p : ReconProg) : Option RMat :=
  match p.squareWhen with
  | .nSensorsEqNModes => if sensors.length = B.ncols then p.square.eval solve lstsq B sensors Y else p.rect.eval solve lstsq B sensors Y

/-- **the specification program, run with the certifying exact solvers, is `predictExact`** -/
theorem ReconProg.spec_eval (B : RMat) (sensors : List Nat) (Y : RMat) :
    ReconProg.spec.eval solveExact lstsqExact B sensors Y = predictExact B sensors Y := by
  unfold ReconProg.eval ReconProg.spec ReconPath.eval predictExact
  by_cases h : sensors.length = B.ncols <;> simp [h]

end PsVerif
