/-
  L0 model of the `SSPOC` life cycle (pysensors/classification/_sspoc.py): which classifier
  `predict` uses and what it was last trained on, the selection bookkeeping of `update_sensors`,
  in the order the code mutates and raises.  Parameters (not modelled): the classifier, the
  sparse solvers, the basis numerics – only *what they were trained on* is tracked (ghost state).
  The magnitudes handed to the selection are an input of each call (the aggregation method is a
  user-supplied callable).  Core Lean only.
-/
import PsVerif.Model.Selection
import PsVerif.Model.Sspor
namespace PsVerif

/-- ghost: the data the classifier object was last trained on -/
inductive Trained
  | nothing
  | basisCoords (fitNo : Nat)                    -- `x @ basis_matrix_inverse_.T` of fit number `fitNo`
  | sensorCols (fitNo : Nat) (sel : List Nat)    -- `x[:, sparse_sensors_]` with that selection
  deriving DecidableEq, Repr

structure Sspoc where
  nSensors : Option PyCount     -- `n_sensors` (constructor argument, never validated there)
  threshold : Option Rat        -- `threshold`
  refit : Bool                  -- `refit_`
  fitted : Bool                 -- `sensor_coef_` exists
  fitNo : Nat                   -- ghost: number of the fit that produced `sensor_coef_`
  trained : Trained             -- ghost
  sel : List Nat                -- `sparse_sensors_`
  nFeat : Nat                   -- `len(sensor_coef_)`
  deriving DecidableEq, Repr

def Sspoc.init (ns : Option PyCount) (thr : Option Rat) : Sspoc :=
  { nSensors := ns, threshold := thr, refit := false, fitted := false, fitNo := 0,
    trained := .nothing, sel := [], nFeat := 0 }

/-- `update_sensors(n_sensors, threshold, xy, method)`; `mag` = `method(|sensor_coef_|)` per sensor,
`dflt` = selection by the documented default threshold (used only by `fit` when neither value is
set); `xy` = training data were passed. -/
def Sspoc.updateSensors (st : Sspoc) (n : Option PyCount) (thr : Option Rat) (xy : Bool)
    (mag : List Rat) (dfltSel : Option (List Nat)) : Sspoc × Option Err :=
  if !st.fitted then (st, some .notFitted) else
  match n, thr, dfltSel with
  | none, none, none => (st, some .valueError)
  | some v, _, _ =>
    match v with
    | .other => (st, some .valueError)
    | .int z =>
      if z < 0 then (st, some .valueError)
      else if z > st.nFeat then (st, some .valueError)
      else
        let k := z.toNat
        let sel := topN mag k
        let st1 := { st with nSensors := some (.int z), sel := sel }
        if xy && decide (k > 0) then
          ({ st1 with refit := true, trained := .sensorCols st.fitNo sel }, none)
        else (st1, none)
  | none, some τ, _ =>
    let sel := threshSel mag τ
    let st1 := { st with threshold := some τ, sel := sel, nSensors := some (.int sel.length) }
    if xy && decide (sel.length > 0) then
      ({ st1 with refit := true, trained := .sensorCols st.fitNo sel }, none)
    else (st1, none)
  | none, none, some sel =>
    -- only reachable from `fit`: the default threshold (a float computed from `s`) is passed as `threshold`
    let st1 := { st with sel := sel, nSensors := some (.int sel.length) }
    if xy && decide (sel.length > 0) then
      ({ st1 with refit := true, trained := .sensorCols st.fitNo sel }, none)
    else (st1, none)

/-- `fit(x, y, refit=…)` for data with `nFeat` features; `mag`/`dfltSel` as above, computed from
the freshly solved coefficients.  (Basis fitting and the solvers are parameters; a failure of
those is not modelled here.) -/
def Sspoc.fit (st : Sspoc) (nFeat : Nat) (refitArg : Bool) (mag : List Rat) (dfltSel : List Nat) :
    Sspoc × Option Err :=
  let no := st.fitNo + 1
  -- classifier trained on basis coordinates; refit_ reset (fix 8968a58)
  let st1 := { st with fitted := true, fitNo := no, trained := .basisCoords no, refit := false,
                       nFeat := nFeat, sel := [] }
  let thr := st.threshold
  -- `self.threshold` itself is NOT overwritten when the default is used: update_sensors receives the
  -- default as its `threshold` argument and stores it
  match st.nSensors with
  | some v => st1.updateSensors (some v) thr refitArg mag none   -- n_sensors overrides the threshold
  | none =>
    match thr with
    | some τ => st1.updateSensors none (some τ) refitArg mag none
    | none => st1.updateSensors none none refitArg mag (some dfltSel)

inductive PredictKind | notFitted | dummy | raw | projected
  deriving DecidableEq, Repr

/-- the dispatch of `predict` -/
def Sspoc.predictKind (st : Sspoc) : PredictKind :=
  if !st.fitted then .notFitted
  else if st.nSensors = some (.int 0) then .dummy
  else if st.refit then .raw else .projected

/-- **the invariant of C09**: what `predict` will feed to the classifier is what the classifier was
last trained on – sensor columns of the *current* selection for `raw`, basis coordinates of the
*current* fit for `projected`. -/
def Sspoc.Consistent (st : Sspoc) : Prop :=
  match st.predictKind with
  | .raw => st.trained = .sensorCols st.fitNo st.sel
  | .projected => st.trained = .basisCoords st.fitNo
  | _ => True

instance (st : Sspoc) : Decidable st.Consistent := by
  unfold Sspoc.Consistent; split <;> infer_instance

/-- reported sensor count equals the number of selected sensors -/
def Sspoc.CountOk (st : Sspoc) : Prop :=
  st.fitted → st.nSensors = some (.int st.sel.length)

/-- `update_sensors(n_sensors, threshold, xy=(x, y))` whose refit data the classifier REFUSES (scikit-learn raises ValueError:
labels one short, a NaN measurement, …).  The code has by then stored the new count and selection (the statements before
`classifier.fit`); the classifier keeps what it was trained on and `refit_` is not touched.  With no sensor selected nothing is
refitted and the call is accepted.  This is finding F16 as the code behaves – not as it should. -/
def Sspoc.updateRefused (st : Sspoc) (n : Option PyCount) (thr : Option Rat) (mag : List Rat) : Sspoc × Option Err :=
  let r := st.updateSensors n thr false mag none
  match r.2 with
  | some e => (r.1, some e)
  | none => if r.1.sel.length > 0 then (r.1, some .valueError) else (r.1, none)

inductive SspocOp
  | fit (nFeat : Nat) (refit : Bool) (mag : List Rat) (dfltSel : List Nat)
  | update (n : Option PyCount) (thr : Option Rat) (xy : Bool) (mag : List Rat)
  | updateRefused (n : Option PyCount) (thr : Option Rat) (mag : List Rat)
  deriving Repr

def Sspoc.step (st : Sspoc) : SspocOp → Sspoc × Option Err
  | .fit nf r mag d => st.fit nf r mag d
  | .update n thr xy mag => st.updateSensors n thr xy mag none
  | .updateRefused n thr mag => st.updateRefused n thr mag

def Sspoc.run (st : Sspoc) (ops : List SspocOp) : Sspoc := ops.foldl (fun s op => (s.step op).1) st

end PsVerif
