/-
  Target language of the life-cycle translator (`harness/translate_lifecycle.py`): the statement tree of
  `SSPOR.update_n_basis_modes` as written – conditions and actions are the (normalised, `ast.unparse`) source texts – the
  hand-written specification tree the regenerated one is proved equal to (`Generated/Lifecycle.lean`), an evaluator giving
  each recognised text its meaning on the SSPOR machine, and the theorem that the specification tree evaluates to
  `Sspor.updateModes` for every state and every argument.  Core Lean only.
-/
import PsVerif.Model.Sspor
namespace PsVerif

inductive LTree
  | raise (exc : String)
  | act (stmt : String) (rest : LTree)
  | branch (cond : String) (t e : LTree)
  | done
  deriving DecidableEq, Repr

structure UpdArgs where
  v : PyCount
  x : Option (Nat × Nat)
  oracle : List Nat

/-- meaning of the recognised conditions (`none` = a text the evaluator does not know) -/
def LTree.condSem (c : String) (st : Sspor) (a : UpdArgs) : Option Bool :=
  if c = "not isinstance(n_basis_modes, INT_DTYPES) or n_basis_modes <= 0" then
    some (match a.v with | .other => true | .int z => decide (z ≤ 0))
  else if c = "hasattr(self.basis, 'basis_matrix_') and n_basis_modes <= self.basis.n_basis_modes" then
    some (match a.v with
      | .other => false
      | .int z => st.basis.fitted.isSome && (match st.basis.nModes with | some nm => decide (z.toNat ≤ nm) | none => false))
  else if c = "self.n_sensors is None or getattr(self, '_n_sensors_defaulted', False)" then
    some (st.nSensors.isNone || st.defaulted)
  else if c = "self.n_sensors > max_sensors" then
    some (match st.nSensors, st.bm with | some k, some shape => decide (k > shape.1) | _, _ => false)
  else if c = "isinstance(self.optimizer, CCQR) and self.n_sensors > self.basis_matrix_.shape[1]" then
    some false        -- decides only whether a warning is printed (both arms have the same effect on the model)
  else if c = "not isinstance(n_sensors, INT_DTYPES)" then some (match a.v with | .other => true | .int _ => false)
  else if c = "n_sensors <= 0" then some (match a.v with | .other => false | .int z => decide (z ≤ 0))
  else if c = "n_sensors > len(self.ranked_sensors_)" then
    some (match a.v, st.ranking with | .int z, some r => decide (z > r.length) | _, _ => false)
  else if c = "x is None" then some a.x.isNone
  else if c = "n_basis_modes > x.shape[0]" then
    some (match a.v, a.x with | .int z, some (ne, _) => decide (z.toNat > ne) | _, _ => false)
  else none

/-- meaning of the recognised statements: the new state and, for a call of `fit`, its error -/
def LTree.actSem (s : String) (st : Sspor) (a : UpdArgs) : Option (Sspor × Option Err) :=
  -- statements of `_validate_n_sensors` (no arguments)
  if s = "check_is_fitted(self, 'basis_matrix_')" then
    some (st, if st.bm.isSome then none else some .notFitted)
  else if s = "max_sensors = self.basis_matrix_.shape[0]" then some (st, none)      -- a local name for `bm.1`
  else if s = "self.n_sensors = max_sensors" then
    (match st.bm with | some shape => some ({ st with nSensors := some shape.1 }, none) | none => none)
  else if s = "self._n_sensors_defaulted = True" then some ({ st with defaulted := true }, none)
  else if s.startsWith "warnings.warn(" then some (st, none)
  -- statements of `set_number_of_sensors`
  else if s = "check_is_fitted(self, 'ranked_sensors_')" then
    some (st, if st.ranking.isSome then none else some .notFitted)
  else if s = "self._n_sensors_defaulted = False" then some ({ st with defaulted := false }, none)
  else if s = "self.n_sensors = n_sensors" then
    (match a.v with | .int z => some ({ st with nSensors := some z.toNat }, none) | .other => none)
  else
  match a.v with
  | .other => none
  | .int z =>
    let k := z.toNat
    if s = "self.n_basis_modes = n_basis_modes" then some ({ st with nBasisModes := some k }, none)
    else if s = "self.basis.n_basis_modes = n_basis_modes" then
      some ({ st with basis := { st.basis with nModes := some k, modesFromFit := false } }, none)
    else if s = "self.fit(x, prefit_basis=True, quiet=quiet)" then some (st.fit 0 0 true a.oracle)
    else if s = "self.fit(x, prefit_basis=False, quiet=quiet)" then
      (match a.x with | some (ne, nf) => some (st.fit ne nf false a.oracle) | none => none)
    else none

def LTree.excSem (e : String) : Option Err :=
  if e = "ValueError" then some .valueError else if e = "NotImplementedError" then some .notImplemented else none

/-- run the statement tree on the machine; an exception inside an action (a rejected `fit`) ends the run with the state as the
action left it -/
def LTree.eval : LTree → Sspor → UpdArgs → Option (Sspor × Option Err)
  | .done, st, _ => some (st, none)
  | .raise e, st, _ => (LTree.excSem e).map (fun err => (st, some err))
  | .act s rest, st, a =>
    match LTree.actSem s st a with
    | none => none
    | some (st', some err) => some (st', some err)
    | some (st', none) => rest.eval st' a
  | .branch c t e, st, a =>
    match LTree.condSem c st a with
    | none => none
    | some true => t.eval st a
    | some false => e.eval st a

/-- `SSPOR.update_n_basis_modes` as it stands -/
def LTree.updModesSpec : LTree :=
  .branch "not isinstance(n_basis_modes, INT_DTYPES) or n_basis_modes <= 0" (.raise "ValueError")
    (.branch "hasattr(self.basis, 'basis_matrix_') and n_basis_modes <= self.basis.n_basis_modes"
      (.act "self.n_basis_modes = n_basis_modes" (.act "self.fit(x, prefit_basis=True, quiet=quiet)" .done))
      (.branch "x is None" (.raise "ValueError")
        (.branch "n_basis_modes > x.shape[0]" (.raise "ValueError")
          (.act "self.n_basis_modes = n_basis_modes" (.act "self.basis.n_basis_modes = n_basis_modes"
            (.act "self.fit(x, prefit_basis=False, quiet=quiet)" .done))))))

/-- `SSPOR._validate_n_sensors` as it stands -/
def LTree.validateSpec : LTree :=
  .act "check_is_fitted(self, 'basis_matrix_')" (.act "max_sensors = self.basis_matrix_.shape[0]"
    (.branch "self.n_sensors is None or getattr(self, '_n_sensors_defaulted', False)"
      (.act "self.n_sensors = max_sensors" (.act "self._n_sensors_defaulted = True"
        (.branch "isinstance(self.optimizer, CCQR) and self.n_sensors > self.basis_matrix_.shape[1]"
          (.act "warnings.warn('Number of sensors exceeds number of samples, which may cause CCQR to select sensors in constrained regions.')" .done)
          .done)))
      (.branch "self.n_sensors > max_sensors" (.raise "ValueError")
        (.branch "isinstance(self.optimizer, CCQR) and self.n_sensors > self.basis_matrix_.shape[1]"
          (.act "warnings.warn('Number of sensors exceeds number of samples, which may cause CCQR to select sensors in constrained regions.')" .done)
          .done))))

/-- `SSPOR.set_number_of_sensors` as it stands -/
def LTree.setNSpec : LTree :=
  .act "check_is_fitted(self, 'ranked_sensors_')"
    (.branch "not isinstance(n_sensors, INT_DTYPES)" (.raise "ValueError")
      (.branch "n_sensors <= 0" (.raise "ValueError")
        (.branch "n_sensors > len(self.ranked_sensors_)" (.raise "ValueError")
          (.act "self.n_sensors = n_sensors" (.act "self._n_sensors_defaulted = False" .done)))))

/-- the part of `SSPOR.fit` in front of the optimizer call, as it stands: basis step (checked to be fitted / fitted on the validated
data, with or without warnings), matrix representation with the model's own `n_basis_modes`, `_validate_n_sensors` – in this order
(`Sspor.fit_eq_validate` is the machine's `fit` in the same three steps; everything after is the ranking translator's business) -/
def LTree.fitHeadSpec : LTree :=
  .branch "prefit_basis"
    (.act "check_is_fitted(self.basis, 'basis_matrix_')"
      (.act "self.basis_matrix_ = self.basis.matrix_representation(n_basis_modes=self.n_basis_modes)" (.act "self._validate_n_sensors()" .done)))
    (.act "x = validate_input(x)"
      (.branch "quiet"
        (.act "with warnings.catch_warnings():\n    warnings.filterwarnings('ignore', category=UserWarning)\n    self.basis.fit(x)"
          (.act "self.basis_matrix_ = self.basis.matrix_representation(n_basis_modes=self.n_basis_modes)" (.act "self._validate_n_sensors()" .done)))
        (.act "self.basis.fit(x)"
          (.act "self.basis_matrix_ = self.basis.matrix_representation(n_basis_modes=self.n_basis_modes)" (.act "self._validate_n_sensors()" .done)))))

/-- step 3 of `Sspor.fit` (`_validate_n_sensors`) as a function of its own: the default count follows the data, an explicit
count is checked against the number of sensor rows -/
def Sspor.validateN (st : Sspor) : Sspor × Option Err :=
  match st.bm with
  | none => (st, some .notFitted)
  | some shape =>
    match st.nSensors with
    | none => ({ st with nSensors := some shape.1, defaulted := true }, none)
    | some k =>
      if st.defaulted then ({ st with nSensors := some shape.1, defaulted := true }, none)
      else if k > shape.1 then (st, some .valueError) else (st, none)

end PsVerif
