/-
  Target language of the shape translator (`harness/translate_shapes.py`): the arithmetic and boolean
  expressions that `constraint_function` of Circle / Cylinder / Line / Parabola / Ellipse / Polygon
  evaluates for one point, over exact rationals, and the hand-written specifications the regenerated
  expressions are proved equal to (`Generated/Shapes.lean`).  Core Lean only.

  `par name` is a constructor argument of the shape object (the translator inlines the attribute
  definitions of `__init__`, so `self.half_horizontal_axis` arrives as `width / 2`); `cos` / `sin` of the
  rotation angle arrive as the parameters `"cos"` / `"sin"` (numpy's trigonometric functions are not
  modelled – the differential check of C12 uses Pythagorean angles, for which they are exact up to rounding).
-/
import PsVerif.Model.Geometry
namespace PsVerif

inductive GE
  | x | y | z
  | par (name : String)
  | lit (q : Rat)
  | add (a b : GE) | sub (a b : GE) | mul (a b : GE) | div (a b : GE)
  | neg (a : GE)
  | sq (a : GE)
  deriving Repr

abbrev ShEnv := String → Rat

def GE.eval (env : ShEnv) (p : Pt) : GE → Rat
  | .x => p.x
  | .y => p.y
  | .z => p.z
  | .par n => env n
  | .lit q => q
  | .add a b => a.eval env p + b.eval env p
  | .sub a b => a.eval env p - b.eval env p
  | .mul a b => a.eval env p * b.eval env p
  | .div a b => a.eval env p / b.eval env p
  | .neg a => -(a.eval env p)
  | .sq a => sqr (a.eval env p)

inductive GB
  | le (a b : GE) | lt (a b : GE) | ge (a b : GE) | gt (a b : GE)
  | and (a b : GB) | or (a b : GB) | not (a : GB)
  | tt | ff
  deriving Repr

def GB.eval (env : ShEnv) (p : Pt) : GB → Bool
  | .le a b => decide (a.eval env p ≤ b.eval env p)
  | .lt a b => decide (a.eval env p < b.eval env p)
  | .ge a b => decide (a.eval env p ≥ b.eval env p)
  | .gt a b => decide (a.eval env p > b.eval env p)
  | .and a b => a.eval env p && b.eval env p
  | .or a b => a.eval env p || b.eval env p
  | .not a => !(a.eval env p)
  | .tt => true
  | .ff => false

/-- the same condition as a proposition (the generated theorems are stated with it; `GB.eval_iff` ties it to the
executable evaluation) -/
def GB.holds (env : ShEnv) (p : Pt) : GB → Prop
  | .le a b => a.eval env p ≤ b.eval env p
  | .lt a b => a.eval env p < b.eval env p
  | .ge a b => a.eval env p ≥ b.eval env p
  | .gt a b => a.eval env p > b.eval env p
  | .and a b => a.holds env p ∧ b.holds env p
  | .or a b => a.holds env p ∨ b.holds env p
  | .not a => ¬ a.holds env p
  | .tt => True
  | .ff => False

theorem GB.eval_iff (env : ShEnv) (p : Pt) (b : GB) : b.eval env p = true ↔ b.holds env p := by
  induction b with
  | le a b => simp [GB.eval, GB.holds]
  | lt a b => simp [GB.eval, GB.holds]
  | ge a b => simp [GB.eval, GB.holds]
  | gt a b => simp [GB.eval, GB.holds]
  | and a b iha ihb => simp [GB.eval, GB.holds, iha, ihb]
  | or a b iha ihb => simp [GB.eval, GB.holds, iha, ihb]
  | not a ih => simp [GB.eval, GB.holds, ← ih]
  | tt => simp [GB.eval, GB.holds]
  | ff => simp [GB.eval, GB.holds]

/-! ### specifications: the shape of `Model/Geometry.lean` a parameter environment denotes -/

def specCircle (env : ShEnv) : Shape := .circle (env "center_x") (env "center_y") (env "radius")

def specCylinder (env : ShEnv) (ax : CylAxis) : Shape :=
  .cylinder (env "center_x") (env "center_y") (env "center_z") (env "radius") (env "height") ax

def specParabola (env : ShEnv) : Shape := .parabola (env "h") (env "k") (env "a")

def specEllipse (env : ShEnv) : Shape :=
  .ellipse (env "center_x") (env "center_y") (env "width") (env "height") (env "cos") (env "sin")

/-- `g` as `constraint_function` must return it: the sensor is NOT constrained (`senID[~g]` are the
constrained ones) -/
def specG (sh : Shape) (loc : Loc) (p : Pt) : Bool := !(sh.constrained loc p)

def specLineG (env : ShEnv) (p : Pt) : Bool :=
  !(lineConstrained (env "x1") (env "x2") (env "y1") (env "y2") p)

/-- one polygon edge from `(x1, y1)` to `(x2, y2)` -/
def specEdge (env : ShEnv) (p : Pt) : Bool :=
  edgeCrosses p.x p.y (env "x1", env "y1") (env "x2", env "y2")

/-- the loop skeleton of `Polygon.constraint_function` the translator recognises: `inFlag` starts at
`False`; for `i` in `range(n)` with `n = len(polygon)`, the edge `polygon[i] → polygon[(i+1) % n]`
flips it when the (translated) edge condition holds.  This is `polygonIn` with the edge test as a
parameter – stated so that the generated edge theorem lifts to the whole polygon. -/
def polygonLoop (edge : Rat → Rat → Rat × Rat → Rat × Rat → Bool) (vs : List (Rat × Rat)) (x y : Rat) : Bool :=
  let n := vs.length
  (List.range n).foldl (fun acc i =>
    if edge x y (vs.getD i (0, 0)) (vs.getD ((i + 1) % n) (0, 0)) then !acc else acc) false

theorem polygonLoop_edgeCrosses (vs : List (Rat × Rat)) (x y : Rat) :
    polygonLoop edgeCrosses vs x y = polygonIn vs x y := rfl

end PsVerif

namespace PsVerif

/-! ### box helpers (C13): the membership test inside the loops of `get_constrained_sensors_indices`
(`a0`, `a1` = `a[0][i]`, `a[1][i]` with `a = np.unravel_index(all_sensors, (nx, ny))`) and of
`get_constrained_sensors_indices_dataframe` (`x[i]`, `y[i]` = the point's coordinates) -/

def specBoxCond (env : ShEnv) : Bool :=
  decide (env "x_min" ≤ env "a0" ∧ env "a0" ≤ env "x_max" ∧ env "y_min" ≤ env "a1" ∧ env "a1" ≤ env "y_max")

def specDfBoxCond (env : ShEnv) (p : Pt) : Bool :=
  decide (env "x_min" ≤ p.x ∧ p.x < env "x_max" ∧ env "y_min" ≤ p.y ∧ p.y < env "y_max")

/-- environment of one pixel of the `n × n` grid -/
def boxEnv (xmin xmax ymin ymax : Rat) (n s : Nat) : ShEnv := fun k =>
  if k = "x_min" then xmin else if k = "x_max" then xmax else if k = "y_min" then ymin else if k = "y_max" then ymax
  else if k = "a0" then ((s / n : Nat) : Rat) else if k = "a1" then ((s % n : Nat) : Rat) else 0

end PsVerif
