/-
  Guard IR (C19): the argument checks at the head of pysensors' entry points, as DECISION TREES that a translator
  (harness/translate_guards.py) regenerates from the current source on every run (`Generated/Guards.lean`).
  A tree is what the code says, statement by statement: `if` / `elif` / `else`, `raise E`, `check_is_fitted`; everything
  that is not a check is `pass`.  Conditions are kept symbolic: `isinstance` tests and `is None` on count-like arguments
  (`PyArg`), comparisons between such arguments, named integer quantities (`len(self.ranked_sensors_)`, `x.shape[0]`, … –
  named by their source text) and literals; any other boolean expression is an opaque flag named by its source text.
  `Model/GuardSpecs.lean` states, per entry point, which function of the hand-written model the tree must equal; the
  generated theorems prove it.  Core Lean only.
-/
import PsVerif.Model.Validation
namespace PsVerif

inductive InstKind | intDtypes | builtinInt | integral
  deriving DecidableEq, Repr
inductive CmpOp | lt | le | gt | ge | eq | ne
  deriving DecidableEq, Repr

inductive GTerm
  | var (name : String)      -- a count-like Python argument (`PyArg`)
  | nat (name : String)      -- a named integer quantity
  | lit (k : Int)
  deriving DecidableEq, Repr

inductive GExpr
  | tt
  | isNone (x : String)
  | isInst (x : String) (k : InstKind)
  | cmp (a : GTerm) (op : CmpOp) (b : GTerm)
  | strEq (x : String) (s : String)
  | strIn (x : String) (keys : List String)
  | flag (name : String)
  | not (e : GExpr)
  | and (a b : GExpr)
  | or (a b : GExpr)
  deriving Repr

inductive GTree
  | pass
  | raise (e : Err)
  | checkFitted (flag : String)                 -- `check_is_fitted(obj, attr)`: NotFittedError unless the flag holds
  | ite (c : GExpr) (t e : GTree)
  | seq (a b : GTree)
  deriving Repr

structure GEnv where
  var : String → PyArg
  nat : String → Int
  flag : String → Bool
  str : String → String

/-- outcome of running the checks: accepted, an exception, or `stuck` – a comparison was evaluated on a value that is
not an integer (Python would raise TypeError or compare a float the model knows nothing about) -/
inductive GOut | ok | raises (e : Err) | stuck
  deriving DecidableEq, Repr

def PyArg.int? : PyArg → Option Int
  | .pyInt v => some v
  | .npInt v => some v
  | _ => Option.none

def GTerm.eval (env : GEnv) : GTerm → Option Int
  | .var x => (env.var x).int?
  | .nat n => some (env.nat n)
  | .lit k => some k

def CmpOp.eval : CmpOp → Int → Int → Bool
  | .lt, a, b => decide (a < b) | .le, a, b => decide (a ≤ b) | .gt, a, b => decide (a > b)
  | .ge, a, b => decide (a ≥ b) | .eq, a, b => decide (a = b) | .ne, a, b => decide (a ≠ b)

def InstKind.holds : InstKind → PyArg → Bool
  | .intDtypes, v => v.int?.isSome                 -- `isinstance(v, INT_DTYPES)`: builtin and numpy integers
  | .builtinInt, v => v.builtinInt?.isSome         -- `isinstance(v, int)`
  | .integral, v => v.integral?.isSome             -- `isinstance(v, numbers.Integral)`

/-- Python's short-circuit evaluation; `none` = the evaluation gets stuck -/
def GExpr.eval (env : GEnv) : GExpr → Option Bool
  | .tt => some true
  | .isNone x => some (decide (env.var x = .none))
  | .isInst x k => some (k.holds (env.var x))
  | .cmp a op b => match a.eval env, b.eval env with
      | some x, some y => some (op.eval x y)
      | _, _ => Option.none
  | .strEq x s => some (decide (env.str x = s))
  | .strIn x keys => some (keys.contains (env.str x))
  | .flag n => some (env.flag n)
  | .not e => (e.eval env).map (!·)
  | .and a b => match a.eval env with
      | some false => some false
      | some true => b.eval env
      | Option.none => Option.none
  | .or a b => match a.eval env with
      | some true => some true
      | some false => b.eval env
      | Option.none => Option.none

def GTree.eval (env : GEnv) : GTree → GOut
  | .pass => .ok
  | .raise e => .raises e
  | .checkFitted f => if env.flag f then .ok else .raises .notFitted
  | .ite c t e => match c.eval env with
      | some true => t.eval env
      | some false => e.eval env
      | Option.none => .stuck
  | .seq a b => match a.eval env with
      | .ok => b.eval env
      | r => r

def Outcome.toG : Outcome → GOut
  | .ok => .ok
  | .raises e => .raises e

end PsVerif
