/-
  L2 model of `SSPOR.predict` / `_square_predict` / `_rectangular_predict`, `score`,
  `reconstruction_error` and of `utils._validation.determinant` over exact rationals.
  The linear solvers are *certifying*: Gauss–Jordan elimination proposes a solution and the model
  accepts it only after checking the defining equations by exact matrix multiplication, so the
  theorems (Props/C02, C07) need nothing about the elimination code itself.
-/
import PsVerif.Model.Gram
namespace PsVerif

namespace RMat
def beq (A B : RMat) : Bool :=
  A.size == B.size && (List.range A.size).all fun i =>
    (A.getD i #[]).size == (B.getD i #[]).size &&
      (List.range (A.getD i #[]).size).all fun j => A.get i j == B.get i j
def sub (A B : RMat) : RMat := ofFn A.nrows A.ncols fun i j => A.get i j - B.get i j
def identity (n : Nat) : RMat := ofFn n n fun i j => if i = j then 1 else 0
def setRow (M : RMat) (i : Nat) (r : Array Rat) : RMat := M.setIfInBounds i r
end RMat

/-- Gauss–Jordan elimination on the augmented matrix `[M | Y]` (M square n×n).
Returns the reduced right-hand side, or `none` when a pivot column is entirely zero. -/
def gaussJordan (n : Nat) (A : RMat) : Option RMat :=
  (List.range n).foldlM (fun (A : RMat) c => do
    -- first row ≥ c with a non-zero entry in column c
    let piv ← (List.range n).find? fun i => decide (c ≤ i) && RMat.get A i c != 0
    let rowP := A.getD piv #[]
    let rowC := A.getD c #[]
    let A := (A.setIfInBounds piv rowC).setIfInBounds c rowP
    let d := RMat.get A c c
    let rc := (A.getD c #[]).map (· / d)
    let A := A.setIfInBounds c rc
    pure <| A.mapIdx fun i row =>
      if i = c then row else
        let f := row.getD c 0
        if f = 0 then row else (row.zipWith (fun x y => x - f * y) rc)) A

def augment (M Y : RMat) : RMat := M.mapIdx fun i r => r ++ Y.getD i #[]
def dropCols (A : RMat) (k : Nat) : RMat := A.map fun r => r.extract k r.size

/-- square solve, certified: the result `X` satisfies `M · X = Y` exactly -/
def solveExact (M Y : RMat) : Option RMat := do
  let n := M.size
  if M.ncols ≠ n || Y.size ≠ n then none else
  let R ← gaussJordan n (augment M Y)
  let X := dropCols R n
  if (M.mul X).beq Y then some X else none

/-- least squares, certified: full column rank → the solution of the normal equations
`MᵀM·X = MᵀY`; full row rank → the minimum-norm solution `X = Mᵀ(MMᵀ)⁻¹Y` of `M·X = Y`.
`none` when `M` has neither full column nor full row rank (LAPACK's minimum-norm contract is then
not reproduced by this model and the case is skipped by the harness). -/
def lstsqExact (M Y : RMat) : Option RMat :=
  let Mt := M.transpose
  match solveExact (Mt.mul M) (Mt.mul Y) with
  | some X => some X
  | none =>
    match solveExact (M.mul Mt) Y with
    | some Z => some (Mt.mul Z)
    | none => none

/-- `predict`: measurements `Y` (n_sensors × batch, i.e. already transposed as in the code),
sensors = `ranking[:n_sensors]`; dispatch on `n_sensors == n_modes`. Result: n_features × batch. -/
def predictExact (B : RMat) (sensors : List Nat) (Y : RMat) : Option RMat :=
  let M := B.gatherRows sensors
  let C := if sensors.length = B.ncols then solveExact M Y else lstsqExact M Y
  C.map fun C => B.mul C

/-- sum of squared entries of `A − B` and the number of entries (`mean((A−B)²)` = ratio) -/
def sqErr (A B : RMat) : Rat × Nat :=
  let D := A.sub B
  (D.foldl (fun acc r => r.foldl (fun a x => a + x * x) acc) 0, A.nrows * A.ncols)

/-- exact determinant by fraction-free-less Gaussian elimination with row swaps -/
def detExact (M : RMat) : Rat :=
  let n := M.size
  let r := (List.range n).foldl (fun (st : RMat × Rat) c =>
    let (A, d) := st
    if d = 0 then (A, 0) else
    match (List.range n).find? fun i => decide (c ≤ i) && RMat.get A i c != 0 with
    | none => (A, 0)
    | some piv =>
      let rowP := A.getD piv #[]
      let rowC := A.getD c #[]
      let A := (A.setIfInBounds piv rowC).setIfInBounds c rowP
      let d := if piv = c then d else -d
      let pv := RMat.get A c c
      let rc := A.getD c #[]
      let A := A.mapIdx fun i row =>
        if i ≤ c then row else
          let f := row.getD c 0 / pv
          if f = 0 then row else row.zipWith (fun x y => x - f * y) rc
      (A, d * pv)) (M, 1)
  r.2

/-- `utils.determinant(top_sensors, n_features, basis_matrix)`: |det(Θ)| for square, det(ΘᵀΘ) for
tall Θ = rows of the basis matrix at the sensors; `none` when fewer sensors than modes. -/
def determinantModel (B : RMat) (sensors : List Nat) : Option Rat :=
  let T := B.gatherRows sensors
  let p := sensors.length
  let r := B.ncols
  if p = r then some (if detExact T < 0 then -(detExact T) else detExact T)
  else if p > r then
    let G := T.transpose.mul T
    some (if detExact G < 0 then -(detExact G) else detExact G)
  else none

end PsVerif
