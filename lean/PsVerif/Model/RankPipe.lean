/-
  Target language of `harness/translate_ranking.py` (C01 / C14 / C16): what `SSPOR.fit` does to the ranking the optimizer
  returned (the seeded shuffle of the tail), and how the other methods read it (`ranked_sensors_[: n_sensors]`), with Python's
  slice arithmetic made explicit.  The generated theorems (`Generated/Ranking.lean`) state that the statements as written are
  `tailShuffle σ m` and `selectLead n_sensors` of `Model/Bookkeeping.lean` for EVERY ranking, mode count, sensor count and
  permutation oracle.  Core Lean only.
-/
import PsVerif.Model.Bookkeeping
namespace PsVerif

/-- integer expressions over the three quantities the code uses: `m = basis_matrix_.shape[1]`, `n = len(ranked_sensors_)`
(= n_features), `ns = self.n_sensors` -/
inductive IdxE
  | m | n | ns
  | lit (k : Int)
  | min (a b : IdxE) | max (a b : IdxE)
  | add (a b : IdxE) | sub (a b : IdxE) | neg (a : IdxE)
  deriving Repr

structure IdxEnv where
  m : Nat
  n : Nat
  ns : Nat

def IdxE.eval (env : IdxEnv) : IdxE → Int
  | .m => env.m
  | .n => env.n
  | .ns => env.ns
  | .lit k => k
  | .min a b => Min.min (a.eval env) (b.eval env)
  | .max a b => Max.max (a.eval env) (b.eval env)
  | .add a b => a.eval env + b.eval env
  | .sub a b => a.eval env - b.eval env
  | .neg a => -(a.eval env)

/-- position an index `s` denotes in `a[s:]` / `a[:s]` on a sequence of length `len` (negative = from the end, clipped) -/
def pyPos (len : Nat) (s : Int) : Nat :=
  if s ≥ 0 then Min.min s.toNat len else len - (-s).toNat

inductive RStmt
  /-- `ranked[dst:] = rng.permutation(ranked[src:])` (or `rng.shuffle(ranked[dst:])` with `src = dst`) -/
  | shuffle (dst src : IdxE)
  /-- `ranked = np.concatenate((ranked[:keep], rng.permutation(ranked[src:])))` -/
  | rebuild (keep src : IdxE)
  /-- `if c:` (an integer used as a condition) -/
  | ifNZ (c : IdxE) (body : List RStmt)
  deriving Repr

mutual
/-- `none`: numpy would refuse (assignment of a sequence of another length into a slice) -/
def RStmt.run (σ : List Nat → List Nat) (env : IdxEnv) : RStmt → List Nat → Option (List Nat)
  | .shuffle dst src, r =>
    let a := pyPos r.length (dst.eval env)
    let b := pyPos r.length (src.eval env)
    if a = b then some (r.take a ++ σ (r.drop b)) else none
  | .rebuild keep src, r =>
    some (r.take (pyPos r.length (keep.eval env)) ++ σ (r.drop (pyPos r.length (src.eval env))))
  | .ifNZ c body, r => if c.eval env ≠ 0 then RStmt.runAll σ env body r else some r
def RStmt.runAll (σ : List Nat → List Nat) (env : IdxEnv) : List RStmt → List Nat → Option (List Nat)
  | [], r => some r
  | s :: rest, r => match s.run σ env r with
    | some r' => RStmt.runAll σ env rest r'
    | none => none
end

/-- a read `ranked[:stop]` -/
def sliceTo (stop : IdxE) (env : IdxEnv) (r : List Nat) : List Nat := r.take (pyPos r.length (stop.eval env))

theorem tailShuffle_min (σ : List Nat → List Nat) (m : Nat) (r : List Nat) :
    r.take (Min.min m r.length) ++ σ (r.drop (Min.min m r.length)) = tailShuffle σ m r := by
  unfold tailShuffle
  by_cases h : m ≤ r.length
  · rw [Nat.min_eq_left h]
  · have h' : r.length ≤ m := Nat.le_of_lt (Nat.lt_of_not_le h)
    rw [Nat.min_eq_right h', List.take_of_length_le (Nat.le_refl _), List.drop_of_length_le (Nat.le_refl _),
      List.take_of_length_le h', List.drop_of_length_le h']

theorem selectLead_min (ns : Nat) (r : List Nat) : r.take (Min.min ns r.length) = selectLead ns r := by
  unfold selectLead
  by_cases h : ns ≤ r.length
  · rw [Nat.min_eq_left h]
  · have h' : r.length ≤ ns := Nat.le_of_lt (Nat.lt_of_not_le h)
    rw [Nat.min_eq_right h', List.take_of_length_le (Nat.le_refl _), List.take_of_length_le h']

theorem pyPos_nat (len k : Nat) : pyPos len (k : Int) = Min.min k len := by
  unfold pyPos
  simp

end PsVerif
