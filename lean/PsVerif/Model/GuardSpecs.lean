/-
  What each generated guard tree (Generated/Guards.lean) must equal: per entry point, `Spec_<id>` – a function of the
  hand-written model applied to the environment's atoms – and `Pre_<id>`, the assumptions about those atoms (lengths and
  counts are non-negative; a name that is both a count argument and compared with a string literal is consistent).
  The atoms are named by the SOURCE TEXT of the expression they stand for (`len(self.ranked_sensors_)`, `x is None`, …):
  renaming a variable in the source changes the atom and the generated proof no longer closes (a harmless rewrite can break
  the tie; the check then searches the real code for a failing input and reports which theorem broke).
  Also here: small guard functions for entry points whose model (Sspor / Sspoc machines) interleaves guards and effects,
  with lemmas linking them to those machines.  Core Lean only.
-/
import PsVerif.Model.Guards
import PsVerif.Model.Sspoc
namespace PsVerif

/-! ### guard functions of the state machines' entry points (own checks only, callees excluded) -/

/-- `SSPOR(n_sensors=v)` -/
def ssporCtorGuard (v : PyArg) : Outcome :=
  match v with
  | .none => .ok
  | _ => match v.toCount with
    | .int z => if z > 0 then .ok else .raises .valueError
    | .other => .raises .valueError

/-- `SSPOR.set_number_of_sensors(v)`; `avail = len(ranked_sensors_)` -/
def ssporSetNGuard (fitted : Bool) (avail : Nat) (v : PyArg) : Outcome :=
  if !fitted then .raises .notFitted else
  match v.toCount with
  | .other => .raises .valueError
  | .int z => if z ≤ 0 then .raises .valueError else if z > avail then .raises .valueError else .ok

/-- `update_n_basis_modes(v, x)` of SSPOR (`xNone` may be true) and SSPOC (`xNone = false`: `x, y = xy` is mandatory):
the function's own checks, before it calls `fit` -/
def updateModesGuard (v : PyArg) (hasBasis : Bool) (bnm : Int) (xNone : Bool) (ne : Int) : Outcome :=
  match v.toCount with
  | .other => .raises .valueError
  | .int z =>
    if z ≤ 0 then .raises .valueError
    else if hasBasis && decide (z ≤ bnm) then .ok
    else if xNone then .raises .valueError
    else if z > ne then .raises .valueError else .ok

/-- `SSPOC.update_sensors(n_sensors=v, threshold=…)`: the checks before anything is assigned -/
def sspocUpdateSensorsGuard (fitted : Bool) (v : PyArg) (thrNone : Bool) (nFeat : Nat) : Outcome :=
  if !fitted then .raises .notFitted else
  match v with
  | .none => if thrNone then .raises .valueError else .ok
  | _ => match v.toCount with
    | .other => .raises .valueError
    | .int z => if z < 0 then .raises .valueError else if z > nFeat then .raises .valueError else .ok

/-- `SSPOR._validate_n_sensors` (run inside every fit): a count that was never chosen follows the data; an explicit one that
exceeds the number of sensors is an error – whatever the optimizer (the CCQR advice is only a warning) -/
def validateNSensorsGuard (fitted nsNone defaulted : Bool) (ns maxS : Int) : Outcome :=
  if !fitted then .raises .notFitted
  else if nsNone || defaulted then .ok
  else if ns > maxS then .raises .valueError else .ok

/-- the box guards with the four comparisons as booleans -/
def boxGuardB (nSensors : Nat) (sensorsAreInts xBad yBad nxInt nyInt : Bool) : Outcome :=
  if nSensors = 0 then .raises .valueError
  else if !sensorsAreInts then .raises .valueError
  else if xBad then .raises .valueError
  else if yBad then .raises .valueError
  else if !nxInt || !nyInt then .raises .valueError
  else .ok

/-! ### links to the models used by the other properties -/

theorem boxGuard_eq (n : Nat) (ints : Bool) (xmin xmax ymin ymax : Rat) (nxInt nyInt : Bool) :
    boxGuard n ints xmin xmax ymin ymax nxInt nyInt =
      boxGuardB n ints (decide (xmin ≥ xmax)) (decide (ymin ≥ ymax)) nxInt nyInt := by
  unfold boxGuard boxGuardB
  simp only [decide_eq_true_eq]

/-- the SSPOR machine's setter rejects exactly what the guard rejects, with the same error, and leaves the state alone -/
theorem sspor_setN_guard (st : Sspor) (v : PyArg) :
    (st.setN v.toCount).2 =
      (match ssporSetNGuard st.ranking.isSome (st.ranking.getD []).length v with
        | .ok => none | .raises e => some e) ∧
    ((st.setN v.toCount).2.isSome → (st.setN v.toCount).1 = st) := by
  unfold Sspor.setN ssporSetNGuard
  cases hr : st.ranking with
  | none => simp
  | some r =>
    cases hv : v.toCount with
    | other => simp
    | int z =>
      simp only [Option.isSome_some, Bool.not_true, Bool.false_eq_true, if_false, Option.getD_some]
      by_cases h1 : z ≤ 0
      · simp [h1]
      · by_cases h2 : z > r.length
        · simp [h1, h2]
        · simp [h1, h2]

/-- the SSPOR constructor accepts exactly what the guard accepts -/
theorem sspor_init_guard (b : BasisSt) (v : PyArg) :
    (Sspor.init b (match v with | .none => none | _ => some v.toCount)).isSome = (ssporCtorGuard v == .ok) := by
  unfold Sspor.init ssporCtorGuard
  cases v <;> simp [PyArg.toCount] <;> split <;> simp_all

/-- the SSPOC machine's `update_sensors` rejects what the guard rejects (on a model with `nFeat` sensors) -/
theorem sspoc_updateSensors_guard (st : Sspoc) (v : PyArg) (thr : Option Rat) (xy : Bool) (mag : List Rat) :
    (st.updateSensors (match v with | .none => none | _ => some v.toCount) thr xy mag none).2 =
      (match sspocUpdateSensorsGuard st.fitted v thr.isNone st.nFeat with
        | .ok => none | .raises e => some e) := by
  unfold Sspoc.updateSensors sspocUpdateSensorsGuard
  cases hf : st.fitted <;> cases v <;> cases thr <;> simp [PyArg.toCount] <;> (repeat' split) <;> simp_all

/-! ### specifications of the generated trees -/

def Pre_basisRep (env : GEnv) : Prop := 0 ≤ env.nat "self.n_basis_modes"
def Spec_basisRep (env : GEnv) : GOut :=
  (basisRep (env.flag "self.basis_matrix_") (env.nat "self.n_basis_modes").toNat (env.var "n_basis_modes")).toG

def Pre_identityCtor (_ : GEnv) : Prop := True
def Spec_identityCtor (env : GEnv) : GOut := (basisCtor true (env.var "n_basis_modes")).toG
def Pre_svdCtor (_ : GEnv) : Prop := True
def Spec_svdCtor (env : GEnv) : GOut := (basisCtor false (env.var "n_basis_modes")).toG
def Pre_customCtor (_ : GEnv) : Prop := True
def Spec_customCtor (env : GEnv) : GOut := (basisCtor false (env.var "n_basis_modes")).toG
/-- the string value is only meaningful when the argument is a string -/
def Pre_rpCtor (env : GEnv) : Prop := env.var "n_basis_modes" = .str ∨ env.str "n_basis_modes" ≠ "auto"
def Spec_rpCtor (env : GEnv) : GOut :=
  if env.str "n_basis_modes" = "auto" then .ok else (basisCtor false (env.var "n_basis_modes")).toG

def Pre_identityFit (env : GEnv) : Prop := 0 ≤ env.nat "self.n_basis_modes" ∧ 0 ≤ env.nat "X.shape[0]"
def Spec_identityFit (env : GEnv) : GOut :=
  (identityFit (if env.flag "self.n_basis_modes is None" then none else some (env.nat "self.n_basis_modes").toNat)
    (env.nat "X.shape[0]").toNat).toG

def Pre_ssporCtor (_ : GEnv) : Prop := True
def Spec_ssporCtor (env : GEnv) : GOut := (ssporCtorGuard (env.var "n_sensors")).toG

def Pre_ssporSetN (env : GEnv) : Prop := 0 ≤ env.nat "len(self.ranked_sensors_)"
def Spec_ssporSetN (env : GEnv) : GOut :=
  (ssporSetNGuard (env.flag "self.ranked_sensors_") (env.nat "len(self.ranked_sensors_)").toNat (env.var "n_sensors")).toG

def Pre_ssporValidateNSensors (_ : GEnv) : Prop := True
def Spec_ssporValidateNSensors (env : GEnv) : GOut :=
  (validateNSensorsGuard (env.flag "self.basis_matrix_") (env.flag "self.n_sensors is None")
    (env.flag "getattr(self, '_n_sensors_defaulted', False)") (env.nat "self.n_sensors") (env.nat "max_sensors")).toG

def Pre_ssporUpdateModes (_ : GEnv) : Prop := True
def Spec_ssporUpdateModes (env : GEnv) : GOut :=
  (updateModesGuard (env.var "n_basis_modes") (env.flag "hasattr(self.basis, 'basis_matrix_')")
    (env.nat "self.basis.n_basis_modes") (env.flag "x is None") (env.nat "x.shape[0]")).toG

def Pre_sspocUpdateModes (_ : GEnv) : Prop := True
def Spec_sspocUpdateModes (env : GEnv) : GOut :=
  (updateModesGuard (env.var "n_basis_modes") (env.flag "hasattr(self.basis, 'basis_matrix_')")
    (env.nat "self.basis.n_basis_modes") false (env.nat "x.shape[0]")).toG

def Pre_sspocUpdateSensors (env : GEnv) : Prop := 0 ≤ env.nat "len(self.sensor_coef_)"
def Spec_sspocUpdateSensors (env : GEnv) : GOut :=
  (sspocUpdateSensorsGuard (env.flag "self.sensor_coef_") (env.var "n_sensors") (env.flag "threshold is None")
    (env.nat "len(self.sensor_coef_)").toNat).toG

def Pre_ccqrCtor (env : GEnv) : Prop := 0 ≤ env.nat "np.ndim(sensor_costs)"
def Spec_ccqrCtor (env : GEnv) : GOut :=
  (ccqrCtor (if env.flag "sensor_costs is None" then none else some (env.nat "np.ndim(sensor_costs)").toNat)).toG

/-- `sensor_costs` here is the local of `CCQR.fit` after the default (None → zeros(n)) was filled in -/
def Pre_ccqrFit (env : GEnv) : Prop := 0 ≤ env.nat "len(sensor_costs)" ∧ 0 ≤ env.nat "n"
def Spec_ccqrFit (env : GEnv) : GOut :=
  (ccqrFit (some (env.nat "len(sensor_costs)").toNat) (env.nat "n").toNat).toG

def Pre_validateInput (env : GEnv) : Prop := 0 ≤ env.nat "len(sensors)" ∧ 0 ≤ env.nat "n_features"
def Spec_validateInput (env : GEnv) : GOut :=
  (validateInput (env.flag "isinstance(x, np.ndarray)") (env.nat "n_features").toNat
    (if env.flag "sensors is None" then none else some (env.nat "len(sensors)").toNat)).toG

def Pre_gqrOption (_ : GEnv) : Prop := True
def Spec_gqrOption (env : GEnv) : GOut := (gqrOption (env.str "name")).toG

def Pre_boxGuard (env : GEnv) : Prop := 0 ≤ env.nat "len(all_sensors)"
def Spec_boxGuard (env : GEnv) : GOut :=
  (boxGuardB (env.nat "len(all_sensors)").toNat (env.flag "np.issubdtype(all_sensors.dtype, np.integer)")
    (env.flag "x_min >= x_max") (env.flag "y_min >= y_max") (env.flag "isinstance(nx, int)") (env.flag "isinstance(ny, int)")).toG

/-- closing script of the generated theorems (after the count-like arguments were case-split) -/
macro "guard_finish" : tactic => `(tactic| (
  simp [basisRep, basisCtor, identityFit, validateInput, ccqrCtor, ccqrFit, gqrOption, boxGuardB, ssporCtorGuard,
    ssporSetNGuard, updateModesGuard, sspocUpdateSensorsGuard, validateNSensorsGuard, CmpOp.eval, InstKind.holds, PyArg.int?, PyArg.integral?,
    PyArg.builtinInt?, PyArg.toCount, Outcome.toG] <;>
  (try (repeat' split)) <;> (try simp_all) <;> (try grind)))

end PsVerif
