/-
  L0 model of the shape constraints and grid helpers of `pysensors/utils/_constraints.py`
  over exact rationals.  `constraint_function` returns `g`; the constrained sensors are those with
  `¬g` (`senID[~g]`), in the order of the ranking that was passed in.  Core Lean only.
-/
namespace PsVerif

inductive Loc | inside | outside
  deriving DecidableEq, Repr

/-- a point: (x, y) or (x, y, z) -/
structure Pt where
  x : Rat
  y : Rat
  z : Rat := 0
  deriving DecidableEq, Repr

inductive CylAxis | X | Y | Z
  deriving DecidableEq, Repr

inductive Shape
  | circle (cx cy r : Rat)
  | cylinder (cx cy cz r h : Rat) (axis : CylAxis)
  | parabola (h k a : Rat)
  /-- width, height are the full axis lengths; `c`, `s` = cos and sin of the rotation angle -/
  | ellipse (cx cy w h c s : Rat)
  | polygon (vs : List (Rat × Rat))
  deriving Repr

def sqr (a : Rat) : Rat := a * a

/-- even–odd crossing test of one polygon edge for the horizontal ray to the left of `(x, y)`,
exactly as written: `(y1 < y and y2 >= y) or (y2 < y and y1 >= y)` and
`x1 + (y - y1)/(y2 - y1)*(x2 - x1) < x` -/
def edgeCrosses (x y : Rat) (p q : Rat × Rat) : Bool :=
  let (x1, y1) := p
  let (x2, y2) := q
  (decide (y1 < y ∧ y2 ≥ y) || decide (y2 < y ∧ y1 ≥ y)) &&
    decide (x1 + (y - y1) / (y2 - y1) * (x2 - x1) < x)

/-- `inFlag` of the polygon: parity of the number of crossing edges (edge i joins vertex i and
vertex (i+1) mod n) -/
def polygonIn (vs : List (Rat × Rat)) (x y : Rat) : Bool :=
  let n := vs.length
  (List.range n).foldl (fun acc i =>
    if edgeCrosses x y (vs.getD i (0, 0)) (vs.getD ((i + 1) % n) (0, 0)) then !acc else acc) false

/-- `inFlag`: the point lies in the closed shape -/
def Shape.contains : Shape → Pt → Bool
  | .circle cx cy r, p => decide (sqr (p.x - cx) + sqr (p.y - cy) ≤ sqr r)
  | .cylinder cx cy cz r h ax, p =>
    match ax with
    | .Z => decide (sqr (p.x - cx) + sqr (p.y - cy) ≤ sqr r) && decide (cz - h / 2 ≤ p.z) && decide (p.z ≤ cz + h / 2)
    | .Y => decide (sqr (p.x - cx) + sqr (p.z - cz) ≤ sqr r) && decide (cy - h / 2 ≤ p.y) && decide (p.y ≤ cy + h / 2)
    | .X => decide (sqr (p.y - cy) + sqr (p.z - cz) ≤ sqr r) && decide (cx - h / 2 ≤ p.x) && decide (p.x ≤ cx + h / 2)
  | .parabola h k a, p => decide (a * sqr (p.x - h) ≤ p.y - k)
  | .ellipse cx cy w h c s, p =>
    let u := (p.x - cx) * c + (p.y - cy) * s
    let v := -(p.x - cx) * s + (p.y - cy) * c
    decide (sqr u / sqr (w / 2) + sqr v / sqr (h / 2) ≤ 1)
  | .polygon vs, p => polygonIn vs p.x p.y

/-- the sensor is on the constrained side: inside the closed shape for `loc='in'`, outside for `'out'` -/
def Shape.constrained (sh : Shape) (loc : Loc) (p : Pt) : Bool :=
  match loc with
  | .inside => sh.contains p
  | .outside => !sh.contains p

/-- `Line(x1, x2, y1, y2)`: `g = (y−y1)(x2−x1) − (y2−y1)(x−x1) ≥ 0`; constrained = `¬g` -/
def lineConstrained (x1 x2 y1 y2 : Rat) (p : Pt) : Bool :=
  !(decide ((p.y - y1) * (x2 - x1) - (y2 - y1) * (p.x - x1) ≥ 0))

/-- image grids: `np.unravel_index(idx, (side, side), 'F')` → `x = idx mod side`, `y = idx div side` -/
def gridPt (side : Nat) (idx : Nat) : Pt := { x := (idx % side : Nat), y := (idx / side : Nat) }

/-- `get_constraint_indices`: evaluate the constraint for every ranked sensor, keep those with `¬g`,
in ranking order.  `coord` maps a sensor index to its coordinates (grid or dataframe row). -/
def constraintIndices (isConstrained : Pt → Bool) (coord : Nat → Pt) (ranking : List Nat) : List Nat :=
  ranking.filter fun s => isConstrained (coord s)

/-- `np.ravel_multi_index((x, y), (side, side), order='F')` -/
def ravelF (side : Nat) (x y : Nat) : Nat := x + y * side

/-- box constraint on an `n × n` pixel grid (`get_constrained_sensors_indices` with `nx = ny = n`):
`a = unravel_index(s, (n, n))` (C order), keep `x_min ≤ a0 ≤ x_max ∧ y_min ≤ a1 ≤ y_max`, return
`ravel_multi_index((a1, a0), (n, n))` – the transposed pixel – in ranking order. -/
def boxIndices (xmin xmax ymin ymax : Rat) (n : Nat) (ranking : List Nat) : List Nat :=
  (ranking.filter fun s =>
      decide (xmin ≤ ((s / n : Nat) : Rat) ∧ ((s / n : Nat) : Rat) ≤ xmax ∧
              ymin ≤ ((s % n : Nat) : Rat) ∧ ((s % n : Nat) : Rat) ≤ ymax)).map
    fun s => (s % n) * n + s / n

/-- dataframe box (`get_constrained_sensors_indices_dataframe`): row positions, after dropping
incomplete rows, with `x_min ≤ x < x_max ∧ y_min ≤ y < y_max` -/
def dfBoxIndices (xmin xmax ymin ymax : Rat) (rows : List (Option Rat × Option Rat)) : List Nat :=
  let kept := rows.filterMap fun r => match r with
    | (some x, some y) => some (x, y)
    | _ => none
  (List.range kept.length).filter fun i =>
    let (x, y) := kept.getD i (0, 0)
    decide (xmin ≤ x ∧ x < xmax ∧ ymin ≤ y ∧ y < ymax)

/-- `os.path.splitext(name)[0]` for a file name without directory part: cut at the last dot, unless
that dot is part of the leading dots -/
def splitextStem (name : List Char) : List Char :=
  let lead := (name.takeWhile (· == '.')).length
  let body := name.drop lead
  match body.reverse.dropWhile (· != '.') with
  | [] => name                                   -- no dot after the leading dots
  | _ :: restRev => name.take lead ++ restRev.reverse

/-- module name derived by `load_functional_constraints` (fix 215804b) -/
def moduleName (fileName : List Char) : List Char := splitextStem fileName

/-- the unrepaired derivation `basename.strip('.py')`, kept to state the witness of the defect -/
def stripChars (cs : List Char) (s : List Char) : List Char :=
  ((s.dropWhile (cs.contains ·)).reverse.dropWhile (cs.contains ·)).reverse
def moduleNameOld (fileName : List Char) : List Char := stripChars ['.', 'p', 'y'] fileName

end PsVerif
