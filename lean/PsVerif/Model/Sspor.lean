/-
  L0 model of the `SSPOR` life cycle (pysensors/reconstruction/_sspor.py) and of the part of the
  basis classes it drives (pysensors/basis/_base.py, _identity.py, _svd.py, _random_projection.py):
  which attribute is read and written by which call, in the order the code does it, including
  the order of mutation and raise.  The numerical parts are parameters:
  * the ranking an optimizer returns for a basis matrix, already tail-shuffled (`oracle`);
  * the entries of the basis matrix (only its shape is tracked here).
  Core Lean only.
-/
import PsVerif.Model.Bookkeeping
namespace PsVerif

inductive Err | valueError | notFitted | typeError | indexError | notImplemented | attributeError | other
  deriving DecidableEq, Repr

def Err.name : Err → String
  | .valueError => "ValueError" | .notFitted => "NotFitted" | .typeError => "TypeError"
  | .indexError => "IndexError" | .notImplemented => "NotImplemented"
  | .attributeError => "AttributeError" | .other => "Other"

/-- a Python value offered where a count is expected: an instance of `INT_DTYPES`, or not -/
inductive PyCount
  | int (v : Int)
  | other            -- float, str, list, None, …
  deriving DecidableEq, Repr

inductive BasisKind | identity | svd | rp
  deriving DecidableEq, Repr

structure BasisSt where
  kind : BasisKind
  nModes : Option Nat            -- `.n_basis_modes` (None only for `Identity()` before its first fit)
  fitted : Option (Nat × Nat)    -- `basis_matrix_.shape` = (n_features, columns)
  /-- ghost (specification only): `nModes` was written by `Identity.fit`, not chosen by the user -/
  modesFromFit : Bool := false
  deriving DecidableEq, Repr

/-- `basis.fit(X)` for `X` of shape `(ne, nf)` -/
def BasisSt.fit (b : BasisSt) (ne nf : Nat) : BasisSt × Option Err :=
  match b.kind, b.nModes with
  | .identity, none => ({ b with fitted := some (nf, ne), nModes := some ne, modesFromFit := true }, none)
  | .identity, some k =>
      if k > ne then (b, some .valueError) else ({ b with fitted := some (nf, k) }, none)
  | .svd, some k =>
      -- TruncatedSVD: n_components ≤ n_features required; at most `ne` components exist
      if k > nf then (b, some .valueError) else ({ b with fitted := some (nf, min k ne) }, none)
  | .svd, none => (b, some .other)
  | .rp, some k => ({ b with fitted := some (nf, k) }, none)
  | .rp, none => (b, some .other)

/-- `basis.matrix_representation(n_basis_modes=k)`: shape of the result.
`_validate_input` only rejects `k > n_basis_modes` (a request for *more* than were fitted). -/
def BasisSt.rep (b : BasisSt) (k : Option Nat) : Except Err (Nat × Nat) :=
  match b.fitted, b.nModes with
  | some (nf, cols), some nm =>
      match k with
      | none => .ok (nf, min nm cols)
      | some k => if k > nm then .error .valueError else .ok (nf, min k cols)
  | _, _ => .error .notFitted

structure Sspor where
  nSensors : Option Nat            -- `n_sensors`
  defaulted : Bool                 -- `_n_sensors_defaulted` (fix 8363b27)
  nBasisModes : Option Nat         -- `n_basis_modes` of the SSPOR object
  basis : BasisSt
  ranking : Option (List Nat)      -- `ranked_sensors_`
  bm : Option (Nat × Nat)          -- `basis_matrix_.shape`
  deriving DecidableEq, Repr

/-- `SSPOR(basis, optimizer, n_sensors)`; `none` in the result = constructor raised ValueError -/
def Sspor.init (b : BasisSt) (ns : Option PyCount) : Option Sspor :=
  let mk (n : Option Nat) : Sspor :=
    { nSensors := n, defaulted := false, nBasisModes := none, basis := b, ranking := none, bm := none }
  match ns with
  | none => some (mk none)
  | some (.int v) => if v > 0 then some (mk (some v.toNat)) else none
  | some .other => none

/-- `fit(x, prefit_basis, seed)` on data of shape `(ne, nf)`.
`oracle` = the ranking `optimizer.fit(basis_matrix_).get_sensors()` after the tail shuffle. -/
def Sspor.fit (st : Sspor) (ne nf : Nat) (prefit : Bool) (oracle : List Nat) : Sspor × Option Err :=
  -- 1. basis
  let (b, e1) := if prefit then
      (st.basis, if st.basis.fitted.isSome then none else some Err.notFitted)
    else st.basis.fit ne nf
  match e1 with
  | some e => ({ st with basis := b }, some e)
  | none =>
  let st1 := { st with basis := b }
  -- 2. matrix representation with the SSPOR's own n_basis_modes
  match b.rep st.nBasisModes with
  | .error e => (st1, some e)
  | .ok shape =>
  let st2 := { st1 with bm := some shape }
  -- 3. _validate_n_sensors
  let maxS := shape.1
  let (st3, e3) : Sspor × Option Err :=
    match st2.nSensors with
    | none => ({ st2 with nSensors := some maxS, defaulted := true }, none)
    | some k =>
        if st2.defaulted then ({ st2 with nSensors := some maxS, defaulted := true }, none)
        else if k > maxS then (st2, some .valueError) else (st2, none)
  match e3 with
  | some e => (st3, some e)
  | none => ({ st3 with ranking := some oracle }, none)

/-- `set_number_of_sensors(v)` / `set_n_sensors(v)` -/
def Sspor.setN (st : Sspor) (v : PyCount) : Sspor × Option Err :=
  match st.ranking with
  | none => (st, some .notFitted)
  | some r =>
    match v with
    | .other => (st, some .valueError)
    | .int v =>
      if v ≤ 0 then (st, some .valueError)
      else if v > r.length then (st, some .valueError)
      else ({ st with nSensors := some v.toNat, defaulted := false }, none)

/-- `update_n_basis_modes(v, x)`; `x = some (ne, nf)` when training data are passed -/
def Sspor.updateModes (st : Sspor) (v : PyCount) (x : Option (Nat × Nat)) (oracle : List Nat) :
    Sspor × Option Err :=
  match v with
  | .other => (st, some .valueError)
  | .int v =>
    if v ≤ 0 then (st, some .valueError) else
    let k := v.toNat
    let canReuse := st.basis.fitted.isSome && (match st.basis.nModes with | some nm => decide (k ≤ nm) | none => false)
    if canReuse then
      let st1 := { st with nBasisModes := some k }
      st1.fit 0 0 true oracle
    else match x with
      | none => (st, some .valueError)
      | some (ne, nf) =>
        if k > ne then (st, some .valueError) else
        let st1 := { st with nBasisModes := some k, basis := { st.basis with nModes := some k, modesFromFit := false } }
        st1.fit ne nf false oracle

/-- `get_selected_sensors()` / `selected_sensors` -/
def Sspor.selected (st : Sspor) : Except Err (List Nat) :=
  match st.ranking with
  | none => .error .notFitted
  | some r => .ok (selectLead (st.nSensors.getD 0) r)

/-- `get_all_sensors()` / `all_sensors` -/
def Sspor.allSensors (st : Sspor) : Except Err (List Nat) :=
  match st.ranking with
  | none => .error .notFitted
  | some r => .ok r

/-- which solver `predict` dispatches to: square (`solve`) iff `n_sensors == basis_matrix_.shape[1]` -/
def Sspor.predictSquare (st : Sspor) : Option Bool :=
  match st.nSensors, st.bm with
  | some k, some (_, m) => some (k == m)
  | _, _ => none

/-- what an observer of the public API can see (everything the properties talk about) -/
structure SsporObs where
  nSensors : Option Nat
  selected : Option (List Nat)
  ranking : Option (List Nat)
  bm : Option (Nat × Nat)
  deriving DecidableEq, Repr

def Sspor.observe (st : Sspor) : SsporObs :=
  { nSensors := st.nSensors, selected := st.selected.toOption, ranking := st.ranking, bm := st.bm }

inductive SsporOp
  | fit (ne nf : Nat) (prefit : Bool) (oracle : List Nat)
  | setN (v : PyCount)
  | updateModes (v : PyCount) (x : Option (Nat × Nat)) (oracle : List Nat)
  /-- the basis OBJECT the model was built with is fitted by somebody else (`basis.fit(X)` on data of shape `(ne, nf)`:
  the documented prefit workflow, or another model sharing the object) -/
  | basisFit (ne nf : Nat)
  /-- the model is replaced by a copy of itself (`pickle`, `copy.deepcopy`, `copy.copy`) -/
  | roundTrip
  deriving Repr

def Sspor.step (st : Sspor) : SsporOp → Sspor × Option Err
  | .fit ne nf p o => st.fit ne nf p o
  | .setN v => st.setN v
  | .updateModes v x o => st.updateModes v x o
  | .basisFit ne nf => let (b, e) := st.basis.fit ne nf; ({ st with basis := b }, e)
  | .roundTrip => (st, none)

def Sspor.run (st : Sspor) (ops : List SsporOp) : Sspor := ops.foldl (fun s op => (s.step op).1) st

end PsVerif
