/-
  Target language of `harness/translate_selection.py` (C08): the expressions by which `SSPOC.update_sensors` selects sensors
  (`np.argsort(-M)[:n_sensors]`, `np.nonzero(M >= threshold)[0]`, with `M = np.abs(coef)` for a coefficient vector and
  `M = method(np.abs(coef), axis=1, **method_kws)` for a coefficient matrix), the sensor count it stores, and the default
  threshold of `SSPOC.fit`.  The generated theorems (`Generated/Selection.lean`) state that the expressions as written are
  `topN` / `threshSel` of `Model/Selection.lean` on the corresponding magnitudes.  Core Lean only.
-/
import PsVerif.Model.Selection
namespace PsVerif

/-- which magnitude vector an expression denotes -/
inductive MagE
  | abs1d        -- np.abs(self.sensor_coef_)
  | aggRows      -- method(np.abs(self.sensor_coef_), axis=1, **method_kws)
  deriving DecidableEq, Repr

inductive CmpK | ge | gt | le | lt
  deriving DecidableEq, Repr

inductive SelE
  /-- `np.argsort(-M)[:n]` -/
  | argsortNegTake (m : MagE)
  /-- `np.nonzero(M ⋈ threshold)[0]` -/
  | nonzeroCmp (m : MagE) (op : CmpK)
  deriving DecidableEq, Repr

/-- the count stored in `self.n_sensors` -/
inductive CountE
  | arg          -- the n_sensors argument
  | lenSel       -- len(sparse_sensors)
  deriving DecidableEq, Repr

structure SelEnv where
  mag1 : List Rat      -- |coef| of a coefficient vector
  magA : List Rat      -- aggregated magnitudes of a coefficient matrix
  n : Nat              -- n_sensors argument
  τ : Rat              -- threshold argument

def MagE.eval (env : SelEnv) : MagE → List Rat
  | .abs1d => env.mag1
  | .aggRows => env.magA

def CmpK.holds : CmpK → Rat → Rat → Bool
  | .ge, m, t => decide (t ≤ m)
  | .gt, m, t => decide (t < m)
  | .le, m, t => decide (m ≤ t)
  | .lt, m, t => decide (m < t)

def SelE.eval (env : SelEnv) : SelE → List Nat
  | .argsortNegTake m => (argsortDesc (m.eval env)).take env.n
  | .nonzeroCmp m op => (List.range (m.eval env).length).filter fun i => op.holds ((m.eval env).getD i 0) env.τ

def CountE.eval (env : SelEnv) (sel : List Nat) : CountE → Nat
  | .arg => env.n
  | .lenSel => sel.length

/-- one branch of `update_sensors`: the selection stored in `sparse_sensors_` and the count stored in `n_sensors` -/
structure SelBranch where
  sel : SelE
  count : CountE
  deriving DecidableEq, Repr

/-- the four branches: (n_sensors given | threshold only) × (coefficient vector | matrix) -/
structure SelProg where
  topn1d : SelBranch
  topn2d : SelBranch
  thr1d : SelBranch
  thr2d : SelBranch
  deriving DecidableEq, Repr

/-- the program the model of `Model/Selection.lean` / `Model/Sspoc.lean` was written from -/
def SelProg.spec : SelProg :=
  { topn1d := ⟨.argsortNegTake .abs1d, .arg⟩, topn2d := ⟨.argsortNegTake .aggRows, .arg⟩,
    thr1d := ⟨.nonzeroCmp .abs1d .ge, .lenSel⟩, thr2d := ⟨.nonzeroCmp .aggRows .ge, .lenSel⟩ }

theorem spec_topn1d (env : SelEnv) : SelProg.spec.topn1d.sel.eval env = topN env.mag1 env.n := rfl
theorem spec_topn2d (env : SelEnv) : SelProg.spec.topn2d.sel.eval env = topN env.magA env.n := rfl
theorem spec_thr1d (env : SelEnv) : SelProg.spec.thr1d.sel.eval env = threshSel env.mag1 env.τ := rfl
theorem spec_thr2d (env : SelEnv) : SelProg.spec.thr2d.sel.eval env = threshSel env.magA env.τ := rfl

/-- the stored count is the number of selected sensors: by construction for a threshold, and for `n_sensors ≤ n_features`
(what the guard of `update_sensors` lets through) for the top-n selection -/
theorem spec_count_thr (env : SelEnv) (b : SelBranch) (h : b.count = .lenSel) :
    b.count.eval env (b.sel.eval env) = (b.sel.eval env).length := by
  rw [h]; rfl

/-- default threshold of `SSPOC.fit`: `np.sqrt(np.sum(s**2)) / (f₁ * f₂ * …)`; the factors of the denominator -/
inductive DenF | two | nModes | nClasses | lit (k : Nat)
  deriving DecidableEq, Repr

def DenF.eval (r c : Nat) : DenF → Nat
  | .two => 2
  | .nModes => r
  | .nClasses => c
  | .lit k => k

def denEval (r c : Nat) (fs : List DenF) : Nat := fs.foldl (fun acc f => acc * f.eval r c) 1

end PsVerif
