/-
  L0 model of the argument guards of pysensors (C19): for every entry point that takes a count,
  an array, a cost vector, an option name or box bounds – which error it raises, in the order the
  code checks, and whether anything was mutated before the raise.  The SSPOR / SSPOC setters and
  updates are modelled in Model/Sspor.lean and Model/Sspoc.lean; this file adds the constructors,
  the basis classes, the array checks, CCQR, GQR and the box helper.  Core Lean only.
-/
import PsVerif.Model.Sspor
namespace PsVerif

/-- a Python value offered where a count is expected, by what the various `isinstance` tests see -/
inductive PyArg
  | pyInt (v : Int)        -- builtin int
  | npInt (v : Int)        -- numpy integer (np.int64, …)
  | float (isWhole : Bool) -- float
  | str
  | list
  | none
  deriving DecidableEq, Repr

/-- `isinstance(v, INT_DTYPES)` of SSPOR/SSPOC: builtin and numpy integers -/
def PyArg.toCount : PyArg → PyCount
  | .pyInt v => .int v
  | .npInt v => .int v
  | _ => .other

/-- `isinstance(v, int)` of the basis constructors: builtin int only -/
def PyArg.builtinInt? : PyArg → Option Int
  | .pyInt v => some v
  | _ => Option.none

/-- `isinstance(v, numbers.Integral)` of `MatrixMixin._validate_input` (fix 3748913) -/
def PyArg.integral? : PyArg → Option Int
  | .pyInt v => some v
  | .npInt v => some v
  | _ => Option.none

inductive Outcome | ok | raises (e : Err)
  deriving DecidableEq, Repr

/-- `Identity(n_basis_modes=v)`, `SVD(v)`, `Custom(U, v)`: `isinstance(v, int) and v > 0`
(Identity also accepts None; RandomProjection also accepts the string 'auto') -/
def basisCtor (allowNone : Bool) (v : PyArg) : Outcome :=
  match v with
  | .none => if allowNone then .ok else .raises .valueError
  | _ => match v.builtinInt? with
    | some z => if z > 0 then .ok else .raises .valueError
    | Option.none => .raises .valueError

/-- `basis.matrix_representation(n_basis_modes=v)` / `matrix_inverse(v)` on a basis with
`nm` modes (`fitted` = `basis_matrix_` exists): check_is_fitted first, then the count. -/
def basisRep (fitted : Bool) (nm : Nat) (v : PyArg) : Outcome :=
  if !fitted then .raises .notFitted else
  match v with
  | .none => .ok
  | _ => match v.integral? with
    | Option.none => .raises .valueError
    | some z => if z ≤ 0 then .raises .valueError else if z > nm then .raises .valueError else .ok

/-- `Identity(n_basis_modes=k).fit(X)` with `ne` examples -/
def identityFit (k : Option Nat) (ne : Nat) : Outcome :=
  match k with
  | some k => if k > ne then .raises .valueError else .ok
  | Option.none => .ok

/-- `validate_input(x, sensors)`: type first, then width -/
def validateInput (isNdarray : Bool) (width : Nat) (expected : Option Nat) : Outcome :=
  if !isNdarray then .raises .valueError else
  match expected with
  | some e => if width ≠ e then .raises .valueError else .ok
  | Option.none => .ok

/-- `SSPOR.predict(x)`: fitted?, then `validate_input(x, selected)` -/
def ssporPredictGuard (fitted isNdarray : Bool) (width nSensors : Nat) : Outcome :=
  if !fitted then .raises .notFitted else validateInput isNdarray width (some nSensors)

/-- `SSPOR.score(x)` / `reconstruction_error(x)`: fitted?, then the width against n_features -/
def ssporFullStateGuard (fitted : Bool) (width nFeatures : Nat) : Outcome :=
  if !fitted then .raises .notFitted else if width ≠ nFeatures then .raises .valueError else .ok

/-- `CCQR(sensor_costs=c)`: `np.ndim(c) != 1` → ValueError (None allowed) -/
def ccqrCtor (ndim : Option Nat) : Outcome :=
  match ndim with
  | Option.none => .ok
  | some d => if d ≠ 1 then .raises .valueError else .ok

/-- `CCQR.fit(B)` with `n` sensors and a cost vector of length `len` (None → zeros) -/
def ccqrFit (len : Option Nat) (n : Nat) : Outcome :=
  match len with
  | Option.none => .ok
  | some l => if l ≠ n then .raises .valueError else .ok

/-- `GQR.fit(..., constraint_option=name)` -/
def gqrOption (name : String) : Outcome :=
  if name = "" ∨ name = "max_n" ∨ name = "exact_n" ∨ name = "predetermined" then .ok
  else .raises .notImplemented

/-- guards of `get_constrained_sensors_indices`, in code order -/
def boxGuard (nSensors : Nat) (sensorsAreInts : Bool) (xmin xmax ymin ymax : Rat) (nxInt nyInt : Bool) :
    Outcome :=
  if nSensors = 0 then .raises .valueError
  else if !sensorsAreInts then .raises .valueError
  else if xmin ≥ xmax then .raises .valueError
  else if ymin ≥ ymax then .raises .valueError
  else if !nxInt || !nyInt then .raises .valueError
  else .ok

end PsVerif
