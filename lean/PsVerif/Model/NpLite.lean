/-
  The handful of numpy operations `pysensors/utils/_norm_calc.py` uses, on lists (core Lean only).  They are the
  vocabulary of the functions `harness/translate_normcalc.py` regenerates from the source (`Generated/NormCalc.lean`).
  A norm vector is represented by its zero pattern (`true` = this entry has been set to 0): the mask functions only
  ever overwrite entries with 0.
-/
namespace PsVerif.Np

/-- `np.isin(xs, L, invert=inv)` -/
def isin (xs L : List Nat) (inv : Bool) : List Bool := xs.map fun c => (L.contains c) != inv
/-- `np.isin(x, L, invert=inv)` for a scalar -/
def isin1 (x : Nat) (L : List Nat) (inv : Bool) : Bool := (L.contains x) != inv
/-- `xs[mask]` -/
def sel (xs : List Nat) (m : List Bool) : List Nat := (xs.zip m).filterMap fun (x, b) => if b then some x else none
/-- `dlens[didx] = 0` on zero patterns -/
def zeroAt (dl m : List Bool) : List Bool := List.zipWith (· || ·) dl m
/-- `np.count_nonzero(m)` / `m.sum()` -/
def count (m : List Bool) : Nat := m.countP id

end PsVerif.Np
