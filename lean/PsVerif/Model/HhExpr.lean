/-
  Target language of `harness/translate_householder.py` (C03 / C04 / C06): the pivot rule and the reflector of
  `qr_reflector` (CCQR) and of the loop body of `GQR.fit`, and the order of the array operations of both loops, as the
  translator reads them off the current source.  `Lemmas/HhDenote.lean` gives the pivot rule and the reflector steps their
  meaning over ℝ and proves that the specification programs below denote the objects of the Householder theorems
  (`reflector` of `Lemmas/Householder.lean`, `realArgmax` of `Lemmas/HouseholderLoop.lean`).  Core Lean only.
-/
namespace PsVerif

/-- how the candidate norms are obtained -/
inductive NormE
  | sqrtSumAbsSq        -- np.sqrt(np.sum(np.abs(r) ** 2, axis=0)) of the trailing block, recomputed
  deriving DecidableEq, Repr

/-- what `np.argmax` is taken of -/
inductive ScoreE
  | normMinusCost (n : NormE)      -- dlens - costs
  | maskedNorm (n : NormE)         -- dlens_updated = mask function applied to dlens
  deriving DecidableEq, Repr

/-- the steps that turn the pivot column `x` (of norm `dlen`) into the Householder vector -/
inductive ReflOp
  | divByNorm                       -- u = x / dlen
  | addSignHead (zeroFix : Bool)    -- u[0] += np.sign(u[0]) (+ (u[0] == 0) when zeroFix)
  | divBySqrtAbsHead                -- u /= np.sqrt(abs(u[0]))
  deriving DecidableEq, Repr

/-- the condition under which the steps are taken -/
inductive GuardE | normPositive     -- dlen > 0
  deriving DecidableEq, Repr

/-- what is returned when the guard fails -/
inductive ZeroE
  | zeroVector                      -- np.zeros(...)  (CCQR after the zero-pivot fix: nothing is reflected)
  | columnWithHeadSqrt2             -- u = r[:, i_piv]; u[0] = sqrt(2)   (GQR)
  deriving DecidableEq, Repr

structure ReflProg where
  score : ScoreE
  guard : GuardE
  steps : List ReflOp
  zero : ZeroE
  deriving DecidableEq, Repr

/-- the array operations of one loop iteration, in source order -/
inductive LoopOp
  | callReflector (rowsFromRowPtr colsFromJ costsGatheredByPerm : Bool)   -- u, i_piv = qr_reflector(R[row:, j:], costs[p[j:]])
  | inlineReflector (rowsFromJ colsFromJ : Bool)                         -- GQR: r = R[j:, j:] … u = …
  | shiftPivotByJ                                                        -- i_piv += j
  | swapPerm                                                             -- p[[j, i_piv]] = p[[i_piv, j]]
  | swapColumnsAllRows                                                   -- R[:, [j, i_piv]] = R[:, [i_piv, j]]
  | applyReflector (rowsFromRowPtr : Bool)                               -- R[a:, j:] -= np.outer(u, np.dot(u, R[a:, j:]))
  | zeroBelowPivot (guardedByAnyU : Bool) (fromRowPtrPlus1 : Bool)       -- R[a + 1:, j] = 0
  | advanceRowPtr (guardedByAnyU : Bool)                                 -- row += 1
  deriving DecidableEq, Repr

structure HhProg where
  refl : ReflProg
  loop : List LoopOp
  deriving DecidableEq, Repr

/-- `CCQR.fit` + `qr_reflector` as the model (`hhStep`, `reflectorAt`, `code_argmax_is_model_argmax`) was transcribed from them -/
def HhProg.specCCQR : HhProg :=
  { refl := { score := .normMinusCost .sqrtSumAbsSq, guard := .normPositive,
              steps := [.divByNorm, .addSignHead true, .divBySqrtAbsHead], zero := .zeroVector },
    loop := [.callReflector true true true, .shiftPivotByJ, .swapPerm, .swapColumnsAllRows, .applyReflector true,
             .zeroBelowPivot true true, .advanceRowPtr true] }

/-- `GQR.fit`: the same reflector on the pivot the mask function lets through; its row pointer is the step counter and the
zero-residual branch builds a reflector from the (zero) column with head √2 -/
def HhProg.specGQR : HhProg :=
  { refl := { score := .maskedNorm .sqrtSumAbsSq, guard := .normPositive,
              steps := [.divByNorm, .addSignHead true, .divBySqrtAbsHead], zero := .columnWithHeadSqrt2 },
    loop := [.inlineReflector true true, .shiftPivotByJ, .swapPerm, .swapColumnsAllRows, .applyReflector false,
             .zeroBelowPivot false false] }

end PsVerif
