/-
  Target language of `harness/translate_bases.py` (C11): how the four bases store their mode matrix at `fit`, what
  `matrix_representation` returns and how each `matrix_inverse` is formed, as read off the current source.  The representation has
  an evaluation that is `RMat.takeCols` (the object of `takeCols_*`, `rep_rejects_gt`); the remaining forms are compared structurally
  with the specification (the routines behind them – TruncatedSVD, GaussianRandomProjection, pinv – are parameters of the model).
  Core Lean only.
-/
import PsVerif.Model.Gram
namespace PsVerif

/-- what `matrix_representation(k, copy)` returns after validating `k` -/
inductive RepE
  | firstColumnsOfStored (copyFlagHonoured : Bool)     -- basis_matrix_[:, :k]  (.copy() iff copy)
  deriving DecidableEq, Repr

def RepE.eval (B : RMat) (k : Nat) : RepE → RMat
  | .firstColumnsOfStored _ => B.takeCols k

inductive StoreE
  | identityAllExamplesTransposedCopy       -- check_array(X).T.copy(); n_basis_modes := number of examples
  | identityFirstKExamplesTransposedCopy    -- check_array(X)[:k, :].T.copy()  (k > n_examples rejected before)
  | svdComponentsTransposed                 -- super().fit(X).components_.T
  | rpTransformOfTransposedData             -- super().fit(X.T); super().transform(X.T)
  | customFirstColumnsOfUserMatrix          -- custom_basis_[:, :n_basis_modes]
  deriving DecidableEq, Repr

inductive InvE
  | identityOfNFeatures                     -- identity(basis_matrix_.shape[0])
  | transposeOfFirstColumns                 -- basis_matrix_[:, :k].T
  | pinvOfFirstColumns                      -- pinv(basis_matrix_[:, :k], **kwargs)
  deriving DecidableEq, Repr

structure BasesProg where
  rep : RepE
  repValidatesFirst : Bool
  identityDefault : StoreE
  identityExplicit : StoreE
  identityRejectsTooManyModesBeforeStoring : Bool
  identityInv : InvE
  svdStore : StoreE
  svdInv : InvE
  rpStore : StoreE
  rpInv : InvE
  rpSeedPassedUnchanged : Bool              -- random_state=random_state handed to the scikit-learn parent as it is
  customStore : StoreE
  customInv : InvE
  inversesValidateFirst : Bool
  deriving DecidableEq, Repr

def BasesProg.spec : BasesProg :=
  { rep := .firstColumnsOfStored true, repValidatesFirst := true,
    identityDefault := .identityAllExamplesTransposedCopy, identityExplicit := .identityFirstKExamplesTransposedCopy,
    identityRejectsTooManyModesBeforeStoring := true, identityInv := .identityOfNFeatures,
    svdStore := .svdComponentsTransposed, svdInv := .transposeOfFirstColumns,
    rpStore := .rpTransformOfTransposedData, rpInv := .pinvOfFirstColumns, rpSeedPassedUnchanged := true,
    customStore := .customFirstColumnsOfUserMatrix, customInv := .transposeOfFirstColumns, inversesValidateFirst := true }

/-- **asking for k modes returns the first k columns of the stored matrix** (the object of `takeCols_takeCols`, `takeCols_get`, …) -/
theorem BasesProg.spec_rep (B : RMat) (k : Nat) : BasesProg.spec.rep.eval B k = B.takeCols k := rfl

end PsVerif
