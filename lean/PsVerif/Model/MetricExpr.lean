/-
  Target language of `harness/translate_metrics.py` (C17): the definitions of `SSPOR.score`, `SSPOR.reconstruction_error`,
  `utils.relative_reconstruction_error` and `utils.determinant` as read off the current source.  The determinant program has an
  evaluation (with the exact determinant as parameter) that is `determinantModel` of `Model/Recon.lean`; the score / error formulas are
  compared structurally with the definitions the property states (and that the correspondence recomputes through the public `predict`).
  Core Lean only.
-/
import PsVerif.Model.Recon
namespace PsVerif

/-- which matrix the determinant is taken of -/
inductive DetOf | theta | gram      -- Θ | ΘᵀΘ
  deriving DecidableEq, Repr

structure DetProg where
  thetaIsSelectedRows : Bool          -- c[i, top_sensors[i]] = 1; theta = c @ basis_matrix
  whenSquare : DetOf                  -- p == r
  whenTall : DetOf                    -- p > r
  absOfDet : Bool                     -- abs(np.linalg.det(M))
  deriving DecidableEq, Repr

def DetProg.spec : DetProg := ⟨true, .theta, .gram, true⟩

def absQ (x : Rat) : Rat := if x < 0 then -x else x

def DetOf.eval (det : RMat → Rat) (T : RMat) : DetOf → Rat
  | .theta => det T
  | .gram => det (T.transpose.mul T)

/-- evaluation with the determinant routine as a parameter -/
def DetProg.eval (det : RMat → Rat) (B : RMat) (sensors : List Nat) (p : DetProg) : Option Rat :=
  let T := if p.thetaIsSelectedRows then B.gatherRows sensors else B
  let v := fun (o : DetOf) => let d := o.eval det T; if p.absOfDet then absQ d else d
  if sensors.length = B.ncols then some (v p.whenSquare)
  else if sensors.length > B.ncols then some (v p.whenTall)
  else none

/-- **the specification program with the exact determinant is `determinantModel`** -/
theorem DetProg.spec_eval (B : RMat) (sensors : List Nat) :
    DetProg.spec.eval detExact B sensors = determinantModel B sensors := by
  unfold DetProg.eval DetProg.spec determinantModel DetOf.eval absQ
  by_cases h1 : sensors.length = B.ncols
  · simp [h1]
  · by_cases h2 : sensors.length > B.ncols <;> simp [h1, h2]

/-- score / error formulas (structure only) -/
inductive ScalarE
  | negSqrtMeanSqDiff      -- -np.sqrt(np.mean((pred - x) ** 2))
  | sqrtMeanSqDiff         --  np.sqrt(np.mean((x - y) ** 2))
  | normRatioTimes100      --  np.linalg.norm((data - prediction) / np.linalg.norm(data)) * 100
  deriving DecidableEq, Repr

structure MetricsProg where
  det : DetProg
  scoreDefault : ScalarE                     -- applied to (predict(x[:, selected]), x)
  scorePredictsFromSelectedColumns : Bool    -- self.predict(x[:, sensors], **solve_kws), sensors = get_selected_sensors()
  scoreCustomArgsDataThenPrediction : Bool   -- score_function(x, prediction, **score_kws)
  errDefaultScorer : ScalarE
  errDefaultRangeUpToMinCountFeatures : Bool -- np.arange(1, min(self.n_sensors, n_features) + 1)
  errUsesFirstKOfRanking : Bool              -- ranked_sensors_[:n_sensors] for the measurements AND the sensors
  errDispatchOnKEqNModes : Bool              -- n_sensors == n_basis_modes → square, else rectangular
  errScorerArgsPredictionThenData : Bool     -- score(prediction, x_test.T)
  errWritesNoModelState : Bool               -- no assignment to self.* anywhere in reconstruction_error
  relErr : ScalarE
  deriving DecidableEq, Repr

def MetricsProg.spec : MetricsProg :=
  { det := DetProg.spec, scoreDefault := .negSqrtMeanSqDiff, scorePredictsFromSelectedColumns := true,
    scoreCustomArgsDataThenPrediction := true, errDefaultScorer := .sqrtMeanSqDiff, errDefaultRangeUpToMinCountFeatures := true,
    errUsesFirstKOfRanking := true, errDispatchOnKEqNModes := true, errScorerArgsPredictionThenData := true,
    errWritesNoModelState := true, relErr := .normRatioTimes100 }

end PsVerif
