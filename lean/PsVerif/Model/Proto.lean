/-
  Token-level parser / printer for the driver's line protocol (core Lean only).
-/
import PsVerif.Model.Gram
import PsVerif.Model.NormCalc
import PsVerif.Model.Sspor
import PsVerif.Model.Sspoc
namespace PsVerif.Proto

abbrev P := StateT (List String) Option

def tok : P String := do
  match (← get) with
  | [] => failure
  | t :: ts => set ts; pure t

def nat : P Nat := do
  match (← tok).toNat? with
  | some n => pure n
  | none => failure

def int : P Int := do
  match (← tok).toInt? with
  | some n => pure n
  | none => failure

def rat : P Rat := do
  let t ← tok
  match t.splitOn "/" with
  | [a] => match a.toInt? with
    | some n => pure (n : Rat)
    | none => failure
  | [a, b] => match a.toInt?, b.toNat? with
    | some n, some d => if d = 0 then failure else pure ((n : Rat) / (d : Rat))
    | _, _ => failure
  | _ => failure

def optNat : P (Option Nat) := do
  let t ← tok
  if t == "None" then pure none else
  match t.toNat? with
  | some n => pure (some n)
  | none => failure

def bool : P Bool := do
  let t ← tok
  if t == "1" || t == "T" then pure true
  else if t == "0" || t == "F" then pure false
  else failure

def listOf {α : Type} (p : P α) : P (List α) := do
  let n ← nat
  let rec go : Nat → List α → P (List α)
    | 0, acc => pure acc.reverse
    | k + 1, acc => do let x ← p; go k (x :: acc)
  go n []

def mat : P RMat := do
  let n ← nat
  let m ← nat
  let rec rows : Nat → List (Array Rat) → P (List (Array Rat))
    | 0, acc => pure acc.reverse
    | k + 1, acc => do
      let rec cols : Nat → List Rat → P (List Rat)
        | 0, a => pure a.reverse
        | c + 1, a => do let x ← rat; cols c (x :: a)
      let r ← cols m []
      rows k (r.toArray :: acc)
  let rs ← rows n []
  pure rs.toArray

def copt : P COption := do
  let t ← tok
  if t == "none" then pure .unconstrained
  else if t == "max_n" then pure .maxN
  else if t == "exact_n" then pure .exactN
  else if t == "predetermined" then pure .predetermined
  else failure

def gqrCfg : P GqrCfg := do
  let o ← copt
  let L ← listOf nat
  let s ← nat
  let A ← listOf nat
  let ns ← optNat
  pure { opt := o, L := L, s := s, A := A, nSensors := ns }

def pyCount : P PyCount := do
  let t ← tok
  if t == "x" then pure .other else
  match t.splitOn ":" with
  | ["i", v] => match v.toInt? with
    | some n => pure (.int n)
    | none => failure
  | _ => failure

def optPyCount : P (Option PyCount) := do
  match (← get) with
  | "None" :: ts => set ts; pure none
  | _ => do let c ← pyCount; pure (some c)

def basisKind : P BasisKind := do
  let t ← tok
  if t == "identity" then pure .identity
  else if t == "svd" then pure .svd
  else if t == "rp" then pure .rp
  else failure

def ssporOp : P SsporOp := do
  let t ← tok
  if t == "fit" then do
    let ne ← nat; let nf ← nat; let pf ← bool; let o ← listOf nat
    pure (.fit ne nf pf o)
  else if t == "set" then do
    let v ← pyCount
    pure (.setN v)
  else if t == "upd" then do
    let v ← pyCount; let hx ← bool; let ne ← nat; let nf ← nat; let o ← listOf nat
    pure (.updateModes v (if hx then some (ne, nf) else none) o)
  else if t == "bfit" then do
    let ne ← nat; let nf ← nat
    pure (.basisFit ne nf)
  else if t == "copy" then pure .roundTrip
  else failure

def optRat : P (Option Rat) := do
  match (← get) with
  | "None" :: ts => set ts; pure none
  | _ => do let r ← rat; pure (some r)

def sspocOp : P SspocOp := do
  let t ← tok
  if t == "fit" then do
    let nf ← nat; let rf ← bool; let mag ← listOf rat; let d ← listOf nat
    pure (.fit nf rf mag d)
  else if t == "upd" then do
    let n ← optPyCount; let thr ← optRat; let xy ← bool; let mag ← listOf rat
    pure (.update n thr xy mag)
  else if t == "updr" then do
    let n ← optPyCount; let thr ← optRat; let mag ← listOf rat
    pure (.updateRefused n thr mag)
  else failure

def showOptNat : Option Nat → String
  | none => "None"
  | some n => toString n

def showRat (r : Rat) : String :=
  if r.den = 1 then toString r.num else s!"{r.num}/{r.den}"
def showNats (l : List Nat) : String := " ".intercalate (l.map toString)
def showBools (l : List Bool) : String := String.ofList (l.map fun b => if b then '1' else '0')
def showB (b : Bool) : String := if b then "1" else "0"

end PsVerif.Proto
