/-
  L0 model: the permutation bookkeeping shared by `CCQR.fit` and `GQR.fit`
  (`p = np.arange(n); for j in range(k): i = j + argmax(...); p[[j,i]] = p[[i,j]]`),
  the tail shuffle of `SSPOR.fit` and the `[: n_sensors]` selection.
  Core Lean only (no Mathlib) so that the driver links as a native executable.
-/
namespace PsVerif

/-- One iteration of the pivot loop.  `choose j p` is the offset returned by the pivot
oracle (`np.argmax(...)` over the trailing block) – an *arbitrary* function: all floating
point arithmetic, costs, constraints and NaNs live inside it.  numpy would raise on an
out-of-range index; the model leaves `p` unchanged there (dead branch, see `argmax_lt`). -/
def pivStep (choose : Nat → Array Nat → Nat) (p : Array Nat) (j : Nat) : Array Nat :=
  let i := j + choose j p
  if h : j < p.size ∧ i < p.size then p.swap j i h.1 h.2 else p

/-- `p = arange(n)` followed by `k` pivot steps. -/
def pivLoop (choose : Nat → Array Nat → Nat) (n k : Nat) : Array Nat :=
  (List.range k).foldl (pivStep choose) (Array.range n)

/-- The oracle that replays a recorded trace of offsets (used by the driver). -/
def traceOracle (tr : List Nat) : Nat → Array Nat → Nat := fun j _ => tr.getD j 0

/-- `ranked[m:] = σ(ranked[m:])` – `SSPOR.fit`'s shuffle of the unranked tail. -/
def tailShuffle (σ : List Nat → List Nat) (m : Nat) (r : List Nat) : List Nat :=
  r.take m ++ σ (r.drop m)

/-- `ranked[: n_sensors]`. -/
def selectLead (nSensors : Nat) (r : List Nat) : List Nat := r.take nSensors

/-- executable permutation test used by the driver and by `decide`d examples -/
def isPermOfRange (l : List Nat) : Bool :=
  (List.range l.length).all (fun i => l.count i == 1)

end PsVerif
