/-
  L0 model of SSPOC's sensor selection (`SSPOC.update_sensors`): aggregation of coefficient
  magnitudes across classes, top-n selection by `argsort(-magnitude)`, threshold selection by
  `nonzero(magnitude >= threshold)`, and the documented default threshold kept in squared form.
  Exact rationals; core Lean only.
-/
namespace PsVerif

def absR (x : Rat) : Rat := if x < 0 then -x else x

inductive Agg | max | mean | min | median
  deriving DecidableEq, Repr

/-- insertion sort (ascending) – used for the median only -/
def insertAsc (x : Rat) : List Rat → List Rat
  | [] => [x]
  | y :: ys => if x ≤ y then x :: y :: ys else y :: insertAsc x ys
def sortAsc (l : List Rat) : List Rat := l.foldr insertAsc []

/-- `method(np.abs(row))` for the four documented methods (`row` = coefficients of one sensor) -/
def aggRow (a : Agg) (row : List Rat) : Rat :=
  let r := row.map absR
  match a with
  | .max => r.foldl (fun m x => if m < x then x else m) (r.headD 0)
  | .min => r.foldl (fun m x => if x < m then x else m) (r.headD 0)
  | .mean => if r.length = 0 then 0 else r.foldl (· + ·) 0 / (r.length : Rat)
  | .median =>
    let s := sortAsc r
    let n := s.length
    if n = 0 then 0
    else if n % 2 = 1 then s.getD (n / 2) 0
    else (s.getD (n / 2 - 1) 0 + s.getD (n / 2) 0) / 2

/-- magnitude of every sensor: `|s_i|` for a coefficient vector (binary), the aggregated row for a
coefficient matrix (multiclass; one row per sensor) -/
def magnitudes (a : Agg) (coef : List (List Rat)) (oneD : Bool) : List Rat :=
  if oneD then coef.map fun row => absR (row.headD 0) else coef.map (aggRow a)

/-- insert index `i` into a list of indices sorted by non-increasing magnitude, after every index
of magnitude ≥ (stable) -/
def insertDesc (mag : List Rat) (i : Nat) : List Nat → List Nat
  | [] => [i]
  | j :: js => if mag.getD j 0 < mag.getD i 0 then i :: j :: js else j :: insertDesc mag i js

/-- a stable `argsort(-mag)` (numpy's is not stable; the property leaves the order of equal
magnitudes free, and so does the correspondence relation) -/
def argsortDesc (mag : List Rat) : List Nat :=
  (List.range mag.length).foldl (fun acc i => insertDesc mag i acc) []

/-- `sorted_sensors[:n_sensors]` -/
def topN (mag : List Rat) (n : Nat) : List Nat := (argsortDesc mag).take n

/-- `np.nonzero(mag >= threshold)[0]` -/
def threshSel (mag : List Rat) (τ : Rat) : List Nat :=
  (List.range mag.length).filter fun i => decide (τ ≤ mag.getD i 0)

/-- the default threshold `‖s‖_F / (2·r·c)` compared in squared form: `mag ≥ τ` iff
`mag² · (2rc)² ≥ Σ s²` (both sides non-negative) -/
def defaultThreshSel (mag : List Rat) (sumSq : Rat) (r c : Nat) : List Nat :=
  let k : Rat := ((2 * r * c : Nat) : Rat)
  (List.range mag.length).filter fun i =>
    let m := mag.getD i 0
    decide (0 ≤ m) && decide (sumSq ≤ m * m * (k * k))

def sumSquares (coef : List (List Rat)) : Rat :=
  coef.foldl (fun acc row => row.foldl (fun a x => a + x * x) acc) 0

end PsVerif
