/-
  L0 model for C20: a tiny alias IR, its concrete buffer semantics and a may-alias check.
  A function of pysensors is translated (harness/translate_alias.py, re-run on every check) into a
  set of statements over numbered variables:
    * `assign x srcs` – `x` is (re)bound to something that may share memory with any of `srcs`
      (a view: basic slice, `.T`, `.conj()`, plain name, unknown call on those arguments); `srcs = []`
      means a freshly allocated array (`.copy()`, arithmetic, fancy indexing, `np.zeros`, …);
    * `write x` – an in-place write through `x` (`x[...] = v`, `x += v`, a mutating method, a call
      to a function whose summary says it writes that parameter).
  The semantics is flow-insensitive: ANY finite sequence of the function's statements (covers all
  branches, loops and orders).  Variables `0 .. nProt-1` are the protected roots (parameters and
  protected fields); initially variable `i < nProt` is bound to buffer `i`.
  Core Lean only.
-/
namespace PsVerif

inductive AStmt
  | assign (x : Nat) (srcs : List Nat)
  | write (x : Nat)
  deriving DecidableEq, Repr

structure AProg where
  nProt : Nat            -- variables 0..nProt-1 are protected roots
  nVars : Nat
  stmts : List AStmt
  deriving Repr

/-- may-alias table: `roots[x]` = protected roots that variable `x` may share memory with -/
abbrev Roots := List (List Nat)

def Roots.get (r : Roots) (x : Nat) : List Nat := r.getD x []

/-- `sub a b`: every element of `a` is in `b` -/
def subList (a b : List Nat) : Bool := a.all fun v => b.contains v

/-- the table is closed under the program: roots contain themselves, and every assignment's target
may alias at least everything its sources may alias -/
def Roots.closed (p : AProg) (r : Roots) : Bool :=
  (List.range p.nProt).all (fun i => (r.get i).contains i) &&
  p.stmts.all fun s => match s with
    | .assign x srcs => srcs.all fun y => subList (r.get y) (r.get x)
    | .write _ => true

/-- no in-place write goes through a variable that may alias a protected root -/
def Roots.writesSafe (p : AProg) (r : Roots) : Bool :=
  p.stmts.all fun s => match s with
    | .write x => (r.get x).isEmpty
    | .assign _ _ => true

/-- least table by naive iteration (untrusted: `check` re-validates closure) -/
def inferRoots (p : AProg) : Roots :=
  let init : Roots := (List.range p.nVars).map fun i => if i < p.nProt then [i] else []
  let step (r : Roots) : Roots :=
    p.stmts.foldl (fun r s => match s with
      | .assign x srcs =>
        let add := (srcs.map r.get).flatten
        let cur := r.get x
        let new := add.foldl (fun acc v => if acc.contains v then acc else acc ++ [v]) cur
        r.set x new
      | .write _ => r) r
  (List.range (p.stmts.length + 1)).foldl (fun r _ => step r) init

/-- the decidable obligation generated for every function -/
def AProg.check (p : AProg) : Bool :=
  let r := inferRoots p
  r.closed p && r.writesSafe p

/-- the variables through which a protected root may be written (for the failing-input search) -/
def AProg.offending (p : AProg) : List (Nat × List Nat) :=
  let r := inferRoots p
  p.stmts.filterMap fun s => match s with
    | .write x => if (r.get x).isEmpty then none else some (x, r.get x)
    | .assign _ _ => none

/-! ### concrete semantics -/

/-- run-time state: which buffer each variable is bound to, a version counter per buffer (bumped by
every write), and the next unused buffer id -/
structure AState where
  env : Nat → Option Nat
  ver : Nat → Nat
  next : Nat

def AState.init (p : AProg) : AState :=
  { env := fun x => if x < p.nProt then some x else none, ver := fun _ => 0, next := p.nProt }

/-- one statement; `choice` resolves which source a view actually shares memory with (any source
with a binding, or a fresh buffer) -/
def AState.exec (st : AState) (s : AStmt) (choice : Nat) : AState :=
  match s with
  | .assign x srcs =>
    let cands := srcs.filterMap st.env
    match cands[choice]? with
    | some b => { st with env := fun y => if y = x then some b else st.env y }
    | none => { st with env := fun y => if y = x then some st.next else st.env y, next := st.next + 1 }
  | .write x =>
    match st.env x with
    | some b => { st with ver := fun c => if c = b then st.ver c + 1 else st.ver c }
    | none => st

/-- an execution: any finite sequence of (statement of the program, choice) pairs -/
def AState.run (st : AState) (tr : List (AStmt × Nat)) : AState :=
  tr.foldl (fun s sc => s.exec sc.1 sc.2) st

end PsVerif
