/-
  C17 — scores and error metrics equal their definitions.  Property theorems only.
-/
import PsVerif.Lemmas.LeastSquares
import PsVerif.Model.Recon
import PsVerif.Model.Sspor
import Mathlib.LinearAlgebra.Matrix.PosDef
import Mathlib.Analysis.RCLike.Basic
namespace PsVerif
open Matrix

variable {p m n : ℕ}

/-- **C17 (relative error).** `‖(d − q)/‖d‖‖² = ‖d − q‖² / ‖d‖²`: dividing by the norm of the data
inside or outside the norm is the same (so the function returns `100·‖d − q‖/‖d‖`). -/
theorem rel_error_identity (d q : Fin p → ℚ) (s : ℚ) (hs : s ≠ 0) :
    sq (fun i => (d i - q i) / s) = sq (fun i => d i - q i) / (s * s) :=
  rel_error_sq d q s hs

/-- **C17 (determinant, tall case).** `det(ΘᵀΘ) ≥ 0`, so taking the absolute value changes nothing. -/
theorem det_gram_nonneg (T : Matrix (Fin p) (Fin m) ℝ) : 0 ≤ (Tᵀ * T).det := by
  sorry

/-- **C17 (sensor rows).** Multiplying by the 0/1 selection matrix built from the sensor list is
gathering the sensor rows of the basis matrix. -/
theorem theta_eq_gather (σ : Fin p → Fin n) (B : Matrix (Fin n) (Fin m) ℚ) :
    selMatrix σ * B = B.submatrix σ id := by
  sorry

/-- the model's determinant is the absolute value it promises (never negative), and is only
defined with at least as many sensors as modes -/
theorem determinantModel_nonneg (B : RMat) (sensors : List Nat) (d : Rat)
    (h : determinantModel B sensors = some d) : 0 ≤ d ∧ B.ncols ≤ sensors.length := by
  sorry

/-- mean squared error is symmetric and vanishes exactly on equal arrays of equal shape
(`sqErr` is the numerator of `mean((x − y)²)`) -/
theorem sqErr_self (A : RMat) : (sqErr A A).1 = 0 := by
  sorry

end PsVerif
