/-
  Helper lemmas (Mathlib): least squares over an ordered field through the normal equations.
  `M` = sensor rows of the basis matrix (p sensors × m modes), `B` = basis matrix (n × m).
-/
import Mathlib.LinearAlgebra.Matrix.DotProduct
import Mathlib.Data.Matrix.Mul
import Mathlib.Tactic.Ring
import Mathlib.Tactic.Linarith
import Mathlib.Algebra.Order.Field.Rat
namespace PsVerif
open Matrix

variable {p m n : ℕ}

/-- `c` solves the normal equations of `min ‖M c − y‖` -/
def NormalEq (M : Matrix (Fin p) (Fin m) ℚ) (y : Fin p → ℚ) (c : Fin m → ℚ) : Prop :=
  Mᵀ *ᵥ (M *ᵥ c) = Mᵀ *ᵥ y

/-- squared Euclidean norm -/
def sq (v : Fin p → ℚ) : ℚ := v ⬝ᵥ v

theorem sq_nonneg' (v : Fin p → ℚ) : 0 ≤ sq v := by
  sorry

theorem sq_eq_zero_iff (v : Fin p → ℚ) : sq v = 0 ↔ v = 0 := by
  sorry

/-- the residual of a solution of the normal equations is orthogonal to the range of `M` -/
theorem normalEq_orth (M : Matrix (Fin p) (Fin m) ℚ) (y : Fin p → ℚ) (c : Fin m → ℚ)
    (h : NormalEq M y c) (d : Fin m → ℚ) : (M *ᵥ d) ⬝ᵥ (M *ᵥ c - y) = 0 := by
  sorry

/-- **normal equations ⇒ least-squares optimal** (Pythagoras) -/
theorem ls_optimal (M : Matrix (Fin p) (Fin m) ℚ) (y : Fin p → ℚ) (c : Fin m → ℚ)
    (h : NormalEq M y c) (c' : Fin m → ℚ) : sq (M *ᵥ c - y) ≤ sq (M *ᵥ c' - y) := by
  sorry

/-- independent columns (full column rank): the normal equations have at most one solution -/
theorem ls_unique (M : Matrix (Fin p) (Fin m) ℚ) (hinj : Function.Injective M.mulVec)
    (y : Fin p → ℚ) (c c' : Fin m → ℚ) (h : NormalEq M y c) (h' : NormalEq M y c') : c = c' := by
  sorry

/-- **in-span signals are reproduced**: if the measurements are `M a`, the coefficients are `a` -/
theorem ls_recovers (M : Matrix (Fin p) (Fin m) ℚ) (hinj : Function.Injective M.mulVec)
    (a c : Fin m → ℚ) (h : NormalEq M (M *ᵥ a) c) : c = a := by
  sorry

/-- independent rows (full row rank, no more sensors than modes): every solution of the normal
equations interpolates the measurements -/
theorem ls_interpolates (M : Matrix (Fin p) (Fin m) ℚ) (hrow : Function.Injective Mᵀ.mulVec)
    (y : Fin p → ℚ) (c : Fin m → ℚ) (h : NormalEq M y c) : M *ᵥ c = y := by
  sorry

/-- the normal equations are linear in `(y, c)` -/
theorem normalEq_linear (M : Matrix (Fin p) (Fin m) ℚ) (y₁ y₂ : Fin p → ℚ) (c₁ c₂ : Fin m → ℚ)
    (h₁ : NormalEq M y₁ c₁) (h₂ : NormalEq M y₂ c₂) (α β : ℚ) :
    NormalEq M (α • y₁ + β • y₂) (α • c₁ + β • c₂) := by
  sorry

/-- minimum-norm form `c = Mᵀ z` with `M Mᵀ z = y`: it solves `M c = y`, hence the normal
equations, and has the smallest norm among all solutions of `M c' = y` -/
theorem minnorm_spec (M : Matrix (Fin p) (Fin m) ℚ) (y : Fin p → ℚ) (z : Fin p → ℚ)
    (hz : M *ᵥ (Mᵀ *ᵥ z) = y) :
    M *ᵥ (Mᵀ *ᵥ z) = y ∧ NormalEq M y (Mᵀ *ᵥ z) ∧
      ∀ c' : Fin m → ℚ, M *ᵥ c' = y → (Mᵀ *ᵥ z) ⬝ᵥ (Mᵀ *ᵥ z) ≤ c' ⬝ᵥ c' := by
  sorry

/-- the minimum-norm solution is unique -/
theorem minnorm_unique (M : Matrix (Fin p) (Fin m) ℚ) (y : Fin p → ℚ) (z z' : Fin p → ℚ)
    (hz : M *ᵥ (Mᵀ *ᵥ z) = y) (hz' : M *ᵥ (Mᵀ *ᵥ z') = y) : Mᵀ *ᵥ z = Mᵀ *ᵥ z' := by
  sorry

/-- relative error: dividing the difference by the norm of the data scales its squared norm -/
theorem rel_error_sq (d q : Fin p → ℚ) (s : ℚ) (hs : s ≠ 0) :
    sq (fun i => (d i - q i) / s) = sq (fun i => d i - q i) / (s * s) := by
  sorry

/-- selection matrix of a sensor list: row `i` is the unit vector of sensor `σ i` -/
def selMatrix (σ : Fin p → Fin n) : Matrix (Fin p) (Fin n) ℚ := fun i j => if σ i = j then 1 else 0

/-- `C · Φ` gathers the sensor rows of the basis matrix -/
theorem gather_eq_selection_mul (σ : Fin p → Fin n) (B : Matrix (Fin n) (Fin m) ℚ) :
    selMatrix σ * B = fun i j => B (σ i) j := by
  sorry

end PsVerif
