/-
  Helper lemmas: invariants of the generic greedy run (`greedyRunFrom`) for every residual
  system, cost vector and mask.  Core Lean only.
-/
import PsVerif.Model.Gram
import PsVerif.Lemmas.Argmax
namespace PsVerif

variable {σ : Type}

theorem applyPivot_perm (S : ResidSys σ) (st : GState σ) (j i : Nat) :
    (applyPivot S st j i).p.Perm st.p := by
  sorry

theorem applyPivot_size (S : ResidSys σ) (st : GState σ) (j i : Nat) :
    (applyPivot S st j i).p.size = st.p.size := by
  sorry

/-- (I1) the tracked index array stays a permutation of `0..n-1` -/
theorem greedyRunFrom_perm (S : ResidSys σ) (costs : Nat → Rat) (mask : Mask) (s0 : σ) (n k : Nat) :
    (greedyRunFrom S costs mask s0 n k).p.Perm (Array.range n) := by
  sorry

theorem greedyRunFrom_size (S : ResidSys σ) (costs : Nat → Rat) (mask : Mask) (s0 : σ) (n k : Nat) :
    (greedyRunFrom S costs mask s0 n k).p.size = n := by
  sorry

theorem greedyRunFrom_succ (S : ResidSys σ) (costs : Nat → Rat) (mask : Mask) (s0 : σ) (n k : Nat) :
    greedyRunFrom S costs mask s0 n (k + 1) =
      greedyStep S costs mask (greedyRunFrom S costs mask s0 n k) k := by
  sorry

/-- a step at position `j` only touches positions `≥ j` -/
theorem greedyStep_prefix (S : ResidSys σ) (costs : Nat → Rat) (mask : Mask) (st : GState σ)
    (j i : Nat) (hi : i < j) :
    (greedyStep S costs mask st j).p[i]? = st.p[i]? := by
  sorry

/-- (I2) prefix stability: the pick of step `j` is entry `j` of every later state -/
theorem greedyRunFrom_prefix (S : ResidSys σ) (costs : Nat → Rat) (mask : Mask) (s0 : σ)
    (n j k : Nat) (hjk : j < k) :
    (greedyRunFrom S costs mask s0 n k).p[j]? = (greedyRunFrom S costs mask s0 n (j + 1)).p[j]? := by
  sorry

/-- the residual state after `k ≤ n` steps is the elimination of the first `k` picks, in order -/
theorem greedyRunFrom_lin (S : ResidSys σ) (costs : Nat → Rat) (mask : Mask) (s0 : σ)
    (n k : Nat) (hk : k ≤ n) :
    (greedyRunFrom S costs mask s0 n k).lin =
      ((greedyRunFrom S costs mask s0 n k).p.toList.take k).foldl S.elim s0 := by
  sorry

/-- (I3) the candidates of step `j` are exactly the sensors not picked so far -/
theorem greedyRunFrom_cands (S : ResidSys σ) (costs : Nat → Rat) (mask : Mask) (s0 : σ)
    (n j : Nat) (c : Nat) :
    c ∈ (greedyRunFrom S costs mask s0 n j).p.toList.drop j ↔
      (c < n ∧ c ∉ (greedyRunFrom S costs mask s0 n j).p.toList.take j) := by
  sorry

/-- the score list of step `j` has one entry per candidate -/
theorem candScores_length (S : ResidSys σ) (st : GState σ) (costs : Nat → Rat) (mask : Mask)
    (j : Nat) : (candScores S st costs mask j).length = st.p.size - j := by
  sorry

/-- (I4)+(greedy rule) the pick of step `j < n` is the first candidate whose masked score
`√norm² − cost` is maximal.  `hnn` = squared norms are non-negative (true of every Gram
system); `hord` = `scoreGe` is a total preorder on scores with non-negative first component
(proved from `geSqrt_iff` in Props/C04). -/
theorem greedy_pick_max (S : ResidSys σ) (costs : Nat → Rat) (mask : Mask) (s0 : σ)
    (hnn : ∀ s c, 0 ≤ S.norm2 s c)
    (hord : GeOrderOn (fun x : Score => 0 ≤ x.1) scoreGe)
    (n j : Nat) (hj : j < n) :
    let st := greedyRunFrom S costs mask s0 n j
    let sc := candScores S st costs mask j
    let off := firstArgmaxBy scoreGe sc
    ∃ (h : off < sc.length),
      (greedyRunFrom S costs mask s0 n (j + 1)).p[j]? = st.p[j + off]? ∧
      (∀ i (hi : i < sc.length), scoreGe sc[off] sc[i] = true) ∧
      (∀ i (hi : i < off), scoreGe (sc[i]'(Nat.lt_trans hi h)) sc[off] = false) := by
  sorry

end PsVerif
