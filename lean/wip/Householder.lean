/-
  L1: the Householder step exactly as written in `qr_reflector` / `CCQR.fit` / `GQR.fit`, over ℝ, refines
  the Schur-complement step of the exact model: after the reflector is applied and the pivot row and
  column are dropped, the Gram matrix of the trailing block is the Schur complement of the Gram matrix.
-/
import Mathlib.Analysis.Real.Sqrt
import Mathlib.Data.Matrix.Mul
import Mathlib.Algebra.BigOperators.Fin
import Mathlib.Algebra.BigOperators.Field
import Mathlib.Tactic.Ring
import Mathlib.Tactic.FieldSimp
import Mathlib.Tactic.Linarith
import Mathlib.Tactic.Positivity
namespace PsVerif

variable {p q : ℕ}

/-- squared norm of column `c` of the trailing block -/
noncomputable def colNorm2 (T : Matrix (Fin (p + 1)) (Fin q) ℝ) (c : Fin q) : ℝ := ∑ i, T i c ^ 2

/-- Gram entry of two columns (sensors) of the trailing block -/
noncomputable def colDot (T : Matrix (Fin (p + 1)) (Fin q) ℝ) (a b : Fin q) : ℝ := ∑ i, T i a * T i b

/-- `u = r[:, i_piv] / dlen; u[0] += sign(u[0]) + (u[0] == 0); u /= sqrt(abs(u[0]))` -/
noncomputable def reflector (T : Matrix (Fin (p + 1)) (Fin q) ℝ) (piv : Fin q) : Fin (p + 1) → ℝ :=
  let ρ := Real.sqrt (colNorm2 T piv)
  let v : Fin (p + 1) → ℝ := fun i => T i piv / ρ
  let σ : ℝ := if v 0 < 0 then -1 else 1          -- np.sign(v0) + (v0 == 0)
  let w : Fin (p + 1) → ℝ := fun i => if i = 0 then v 0 + σ else v i
  fun i => w i / Real.sqrt |w 0|

/-- `R[j:, j:] -= np.outer(u, np.dot(u, R[j:, j:]))` -/
noncomputable def applyReflector (T : Matrix (Fin (p + 1)) (Fin q) ℝ) (u : Fin (p + 1) → ℝ) :
    Matrix (Fin (p + 1)) (Fin q) ℝ :=
  fun i c => T i c - u i * ∑ k, u k * T k c

/-- the reflector has squared length 2, so `I − u uᵀ` is an orthogonal reflection -/
theorem reflector_norm (T : Matrix (Fin (p + 1)) (Fin q) ℝ) (piv : Fin q) (hρ : 0 < colNorm2 T piv) :
    ∑ i, reflector T piv i ^ 2 = 2 := by
  sorry

/-- the reflection preserves all Gram entries of the block -/
theorem applyReflector_gram (T : Matrix (Fin (p + 1)) (Fin q) ℝ) (u : Fin (p + 1) → ℝ)
    (hu : ∑ i, u i ^ 2 = 2) (a b : Fin q) :
    colDot (applyReflector T u) a b = colDot T a b := by
  sorry

/-- the pivot column is mapped onto the first coordinate axis: everything below row 0 vanishes
(this is what `R[j+1:, j] = 0` writes explicitly) -/
theorem applyReflector_pivot_column (T : Matrix (Fin (p + 1)) (Fin q) ℝ) (piv : Fin q)
    (hρ : 0 < colNorm2 T piv) (i : Fin p) :
    applyReflector T (reflector T piv) i.succ piv = 0 := by
  sorry

/-- **Householder refines Schur.** After the step, the Gram matrix of the block without its first row
is the Schur complement of the old Gram matrix with respect to the pivot – the step of the exact
model (`schur`). Hence the column norms the code computes at the next step are the square roots of the
model's Schur diagonal, in exact real arithmetic. -/
theorem householder_refines_schur (T : Matrix (Fin (p + 1)) (Fin q) ℝ) (piv : Fin q)
    (hρ : 0 < colNorm2 T piv) (a b : Fin q) :
    ∑ i : Fin p, applyReflector T (reflector T piv) i.succ a * applyReflector T (reflector T piv) i.succ b =
      colDot T a b - colDot T a piv * colDot T piv b / colNorm2 T piv := by
  sorry

end PsVerif
