/-
  C08 — classification sensors are the top-magnitude sensors, or those above threshold.
  Property theorems only (models: Model/Selection.lean, Model/Sspoc.lean).
-/
import PsVerif.Model.Selection
import PsVerif.Model.Sspoc
import Mathlib.Analysis.Real.Sqrt
import Mathlib.Data.Rat.Cast.Order
import Mathlib.Algebra.Order.Field.Rat
namespace PsVerif

/-- `argsort(-mag)` is a permutation of the sensor indices … -/
theorem argsortDesc_perm (mag : List Rat) : (argsortDesc mag).Perm (List.range mag.length) := by
  sorry

/-- … listing them in non-increasing magnitude -/
theorem argsortDesc_sorted (mag : List Rat) :
    (argsortDesc mag).Pairwise fun i j => mag.getD j 0 ≤ mag.getD i 0 := by
  sorry

/-- **C08 (top-n).** For `n ≤ n_features` the selection has exactly `n` distinct valid sensors, in
non-increasing magnitude, and every unselected sensor has magnitude ≤ every selected one. -/
theorem topN_spec (mag : List Rat) (n : Nat) (hn : n ≤ mag.length) :
    (topN mag n).length = n ∧ (topN mag n).Nodup ∧ (∀ i ∈ topN mag n, i < mag.length) ∧
      ((topN mag n).Pairwise fun i j => mag.getD j 0 ≤ mag.getD i 0) ∧
      (∀ i ∈ topN mag n, ∀ j, j < mag.length → j ∉ topN mag n → mag.getD j 0 ≤ mag.getD i 0) := by
  sorry

/-- **C08 (prefix).** A smaller `n_sensors` yields a prefix of a larger one. -/
theorem topN_prefix (mag : List Rat) (n n' : Nat) (h : n ≤ n') : topN mag n <+: topN mag n' := by
  sorry

/-- **C08 (threshold).** Exactly the sensors whose magnitude is at least the threshold. -/
theorem thresh_iff (mag : List Rat) (τ : Rat) (i : Nat) :
    i ∈ threshSel mag τ ↔ i < mag.length ∧ τ ≤ mag.getD i 0 := by
  sorry

theorem thresh_nodup (mag : List Rat) (τ : Rat) : (threshSel mag τ).Nodup := by
  sorry

/-- **C08.** Raising the threshold can only remove sensors. -/
theorem thresh_antitone (mag : List Rat) (τ τ' : Rat) (h : τ ≤ τ') :
    ∀ i ∈ threshSel mag τ', i ∈ threshSel mag τ := by
  sorry

theorem absR_nonneg (x : Rat) : 0 ≤ absR x := by
  sorry

/-- magnitudes are non-negative for a coefficient vector and for `max`-aggregated rows -/
theorem magnitudes_nonneg_oneD (a : Agg) (coef : List (List Rat)) :
    ∀ m ∈ magnitudes a coef true, 0 ≤ m := by
  sorry

/-- **C08.** Threshold 0 selects every sensor (magnitudes are non-negative). -/
theorem thresh_zero_all (mag : List Rat) (h : ∀ m ∈ mag, 0 ≤ m) :
    threshSel mag 0 = List.range mag.length := by
  sorry

/-- **C08 (default threshold).** The selection used when neither `n_sensors` nor `threshold` is
given is the threshold selection at `‖s‖_F / (2·r·c)`: the squared comparison of the model is the
comparison with the real square root. -/
theorem default_threshold_sq (mag : List Rat) (sumSq : Rat) (r c : Nat) (hss : 0 ≤ sumSq)
    (hr : 0 < r) (hc : 0 < c) (i : Nat) :
    i ∈ defaultThreshSel mag sumSq r c ↔
      i < mag.length ∧ Real.sqrt (sumSq : ℝ) / (2 * (r : ℝ) * (c : ℝ)) ≤ ((mag.getD i 0 : ℚ) : ℝ) := by
  sorry

/-- a rejected `update_sensors` call leaves the model unchanged -/
theorem update_rejected_unchanged (st : Sspoc) (n : Option PyCount) (thr : Option Rat) (xy : Bool)
    (mag : List Rat) (h : (st.updateSensors n thr xy mag none).2 ≠ none) :
    (st.updateSensors n thr xy mag none).1 = st := by
  sorry

/-- **C08 (reported count).** After every accepted `update_sensors` call on a fitted model the
reported `n_sensors` equals the number of selected sensors (`mag` has one entry per sensor). -/
theorem update_count_ok (st : Sspoc) (n : Option PyCount) (thr : Option Rat) (xy : Bool)
    (mag : List Rat) (hmag : mag.length = st.nFeat)
    (h : (st.updateSensors n thr xy mag none).2 = none) :
    (st.updateSensors n thr xy mag none).1.CountOk := by
  sorry

/-- … and after every accepted `fit` (the default selection has valid distinct indices) -/
theorem fit_count_ok (st : Sspoc) (nFeat : Nat) (refit : Bool) (mag : List Rat) (dflt : List Nat)
    (hmag : mag.length = nFeat) (h : (st.fit nFeat refit mag dflt).2 = none) :
    (st.fit nFeat refit mag dflt).1.CountOk := by
  sorry

example : topN [1, 3, 3, 0, 2] 3 = [1, 2, 4] := by decide
example : threshSel [1, 3, 0, 2] 2 = [1, 3] := by decide

end PsVerif
