/-
  Helper lemmas (Mathlib): `geSqrt` decides `√a − c ≥ √b − d` exactly; hence `scoreGe` is a total
  preorder on scores with non-negative squared norm.
-/
import Mathlib.Analysis.Real.Sqrt
import Mathlib.Tactic.Ring
import Mathlib.Tactic.Linarith
import Mathlib.Tactic.Positivity
import Mathlib.Algebra.Order.Field.Rat
import Mathlib.Data.Rat.Cast.Order
import PsVerif.Model.Gram
import PsVerif.Lemmas.Argmax
namespace PsVerif

/-- real core: `√b + t ≤ √a` for `t ≥ 0` by squaring twice -/
theorem sqrt_add_le_iff (a b t : ℝ) (ha : 0 ≤ a) (hb : 0 ≤ b) (ht : 0 ≤ t) :
    Real.sqrt b + t ≤ Real.sqrt a ↔ (0 ≤ a - b - t ^ 2 ∧ 4 * t ^ 2 * b ≤ (a - b - t ^ 2) ^ 2) := by
  sorry

/-- **`geSqrt` is exact**: for non-negative squared norms it decides the comparison of
`√a − c` with `√b − d` over the reals. -/
theorem geSqrt_iff (a c b d : ℚ) (ha : 0 ≤ a) (hb : 0 ≤ b) :
    geSqrt a c b d = true ↔ Real.sqrt (a : ℝ) - (c : ℝ) ≥ Real.sqrt (b : ℝ) - (d : ℝ) := by
  sorry

/-- the real-valued score `√norm² − cost` of a candidate -/
noncomputable def scoreR (x : Score) : ℝ := Real.sqrt (x.1 : ℝ) - (x.2 : ℝ)

theorem scoreGe_iff (x y : Score) (hx : 0 ≤ x.1) (hy : 0 ≤ y.1) :
    scoreGe x y = true ↔ scoreR y ≤ scoreR x := by
  sorry

theorem scoreGe_order : GeOrderOn (fun x : Score => 0 ≤ x.1) scoreGe := by
  sorry

/-- adding the same constant to both costs does not change the comparison -/
theorem geSqrt_shift (a c b d t : ℚ) : geSqrt a (c + t) b (d + t) = geSqrt a c b d := by
  sorry

/-- with equal costs the comparison is that of the squared norms -/
theorem geSqrt_same_cost (a b c : ℚ) (ha : 0 ≤ a) (hb : 0 ≤ b) :
    geSqrt a c b c = decide (b ≤ a) := by
  sorry

/-- positive rescaling (norms by `s`, hence squared norms by `s²`, costs by `s`) -/
theorem geSqrt_scale (a c b d s : ℚ) (hs : 0 < s) (ha : 0 ≤ a) (hb : 0 ≤ b) :
    geSqrt (s * s * a) (s * c) (s * s * b) (s * d) = geSqrt a c b d := by
  sorry

end PsVerif
