/-
  C20 — no call modifies the caller's arrays or the stored basis.
  Property theorems only.  `analysis_sound` is proved once; the per-function obligations
  `check prog_f = true` live in PsVerif/Generated/Alias.lean, which the translator rewrites from
  /repo's current source on every run.
-/
import PsVerif.Model.Alias
namespace PsVerif

/-- every statement of the trace is a statement of the program -/
def TraceOf (p : AProg) (tr : List (AStmt × Nat)) : Prop := ∀ sc ∈ tr, sc.1 ∈ p.stmts

/-- **C20 (soundness of the may-alias check).** If the generated obligation holds, then along EVERY
execution – any finite sequence of the function's statements, any resolution of which source a view
shares memory with – no protected buffer (caller-supplied array, stored basis) is ever written:
its version counter stays 0. -/
theorem analysis_sound (p : AProg) (h : p.check = true) (hv : p.nProt ≤ p.nVars)
    (tr : List (AStmt × Nat)) (htr : TraceOf p tr) (b : Nat) (hb : b < p.nProt) :
    ((AState.init p).run tr).ver b = 0 := by
  sorry

/-- the check really rejects: a view of an argument that is written through -/
theorem check_rejects_write_through_view :
    ({ nProt := 1, nVars := 2, stmts := [.assign 1 [0], .write 1] } : AProg).check = false := by
  sorry

/-- … and accepts the same program once a copy is taken -/
theorem check_accepts_copy :
    ({ nProt := 1, nVars := 3, stmts := [.assign 1 [0], .assign 2 [], .write 2] } : AProg).check = true := by
  sorry

end PsVerif
