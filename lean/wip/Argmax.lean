/-
  Helper lemmas: specification of `firstArgmaxBy` (numpy's argmax) for any "≥" test that is a
  total preorder on the elements that occur.  Core Lean only.
-/
import PsVerif.Model.Gram
namespace PsVerif

/-- `ge` is a total preorder on the elements satisfying `P`. -/
structure GeOrderOn {α : Type} (P : α → Prop) (ge : α → α → Bool) : Prop where
  total : ∀ a b, P a → P b → ge a b = true ∨ ge b a = true
  trans : ∀ a b c, P a → P b → P c → ge a b = true → ge b c = true → ge a c = true

theorem firstArgmaxBy_lt {α : Type} (ge : α → α → Bool) (xs : List α) (h : xs ≠ []) :
    firstArgmaxBy ge xs < xs.length := by
  sorry

/-- the element at the returned index is `ge` every element -/
theorem firstArgmaxBy_max {α : Type} {P : α → Prop} {ge : α → α → Bool} (hge : GeOrderOn P ge)
    (xs : List α) (hP : ∀ x ∈ xs, P x) (i : Nat) (hi : i < xs.length)
    (h0 : firstArgmaxBy ge xs < xs.length) :
    ge (xs[firstArgmaxBy ge xs]'h0) xs[i] = true := by
  sorry

/-- it is the *first* such index: every earlier element is strictly beaten -/
theorem firstArgmaxBy_first {α : Type} {P : α → Prop} {ge : α → α → Bool} (hge : GeOrderOn P ge)
    (xs : List α) (hP : ∀ x ∈ xs, P x) (i : Nat) (h0 : firstArgmaxBy ge xs < xs.length)
    (hi : i < firstArgmaxBy ge xs) :
    ge (xs[i]'(Nat.lt_trans hi h0)) (xs[firstArgmaxBy ge xs]'h0) = false := by
  sorry

/-- the result only depends on the comparison outcomes: mapping the elements through `f`
with `ge' (f x) (f y) = ge x y` does not change the index -/
theorem firstArgmaxBy_map {α β : Type} (ge : α → α → Bool) (ge' : β → β → Bool) (f : α → β)
    (xs : List α) (h : ∀ x ∈ xs, ∀ y ∈ xs, ge' (f x) (f y) = ge x y) :
    firstArgmaxBy ge' (xs.map f) = firstArgmaxBy ge xs := by
  sorry

end PsVerif
