/-
  C06 — constrained selection stays greedy among permitted sensors; reduces to QR / CCQR.
  Property theorems only.
-/
import PsVerif.Props.C05
namespace PsVerif

variable {σ : Type}

/-- the feasibility clause of the property for option `o` -/
def FeasibleFor (o : COption) (n N s : Nat) (L : List Nat) : Prop :=
  match o with
  | .unconstrained => True
  | .maxN => N - s ≤ n - L.length
  | .exactN => s ≤ N ∧ s ≤ L.length ∧ N - s ≤ n - L.length
  | .predetermined => s ≤ N ∧ s ≤ L.length ∧ N - s ≤ n - L.length

/-- **C06, own-class maximality.** Under every option each of the first `N` chosen sensors has
the largest squared residual norm among the not-yet-chosen sensors of its own class (inside or
outside the region). -/
theorem gqr_own_class_max (o : COption) (S : ResidSys σ) (s0 : σ) (n N s : Nat) (L A : List Nat)
    (h : GqrSetup S s0 n N L A) (hf : FeasibleFor o n N s L)
    (hnn : NonnegRun S (cfgOf o L s A N).mask s0 n N)
    (hpos : PosCands S (cfgOf o L s A N).mask s0 n N)
    (j : Nat) (hj : j < N) (q : Nat)
    (hq : (greedyRunFrom S zc (cfgOf o L s A N).mask s0 n (j + 1)).p[j]? = some q) :
    let st := greedyRunFrom S zc (cfgOf o L s A N).mask s0 n j
    q ∈ st.p.toList.drop j ∧
      ∀ c ∈ st.p.toList.drop j, inL L c = inL L q → S.norm2 st.lin c ≤ S.norm2 st.lin q := by
  sorry

/-- the unconstrained ranking already satisfies the constraint of option `o` -/
def MetBy (o : COption) (N s : Nat) (L A : List Nat) : Prop :=
  match o with
  | .unconstrained => True
  | .maxN => (A.take N).countP (inL L) ≤ s
  | .exactN => (A.take N).countP (inL L) = s
  | .predetermined => s ≤ N ∧ (∀ x ∈ (A.take N).take (N - s), inL L x = false) ∧
      (∀ x ∈ (A.take N).drop (N - s), inL L x = true)

/-- **C06, inactive constraint.** When the unconstrained ranking already satisfies the constraint,
the first `N` sensors equal the unconstrained (QR) ranking. -/
theorem gqr_inactive_eq_qr (o : COption) (S : ResidSys σ) (s0 : σ) (n N s k : Nat) (L A : List Nat)
    (h : GqrSetup S s0 n N L A) (hmet : MetBy o N s L A) (hk : N ≤ k) :
    (greedyRunFrom S zc (cfgOf o L s A N).mask s0 n k).p.toList.take N = A.take N := by
  sorry

/-- cost vector that makes every region sensor prohibitive -/
def prohibitiveCosts (L : List Nat) (C : Rat) : Nat → Rat := fun c => if inL L c then C else 0

/-- **C06, allowance zero.** With `s = 0` the first `N` sensors equal the CCQR ranking obtained by
giving every region sensor a cost `C` that exceeds every residual norm. -/
theorem gqr_s0_eq_ccqr_prohibitive (o : COption) (ho : o ≠ .unconstrained) (S : ResidSys σ) (s0 : σ)
    (n N k : Nat) (L A : List Nat) (C : Rat)
    (h : GqrSetup S s0 n N L A) (hout : N ≤ n - L.length) (hk : N ≤ k)
    (hnn : NonnegRun S (cfgOf o L 0 A N).mask s0 n N)
    (hpos : PosCands S (cfgOf o L 0 A N).mask s0 n N)
    (hC0 : 0 < C)
    (hC : ∀ j < N, ∀ c, S.norm2 (greedyRunFrom S zc (cfgOf o L 0 A N).mask s0 n j).lin c < C * C) :
    (greedyRunFrom S zc (cfgOf o L 0 A N).mask s0 n k).p.toList.take N =
      (greedyRunFrom S (prohibitiveCosts L C) noMask s0 n k).p.toList.take N := by
  sorry

end PsVerif
