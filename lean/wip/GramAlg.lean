/-
  Helper lemmas (Mathlib): the array-level Gram / Schur model is the Gram matrix of the
  modified-Gram–Schmidt residual vectors.
-/
import Mathlib.LinearAlgebra.Matrix.DotProduct
import Mathlib.Tactic.Ring
import Mathlib.Tactic.FieldSimp
import Mathlib.Tactic.Linarith
import Mathlib.Algebra.Order.Field.Rat
import Mathlib.LinearAlgebra.LinearIndependent.Defs
import Mathlib.LinearAlgebra.Span.Basic
import PsVerif.Model.Gram
namespace PsVerif
open Matrix

/-- `M` has `n` rows, each of length `m` -/
def RMat.WF (M : RMat) (n m : Nat) : Prop := M.size = n ∧ ∀ i (h : i < M.size), (M[i]).size = m

/-- row `a` as a vector of `m` rational coefficients -/
def RMat.vec (M : RMat) (m : Nat) (a : Nat) : Fin m → ℚ := fun i => M.get a i.val

theorem RMat.get_ofFn (n m : Nat) (f : Nat → Nat → Rat) (i j : Nat) :
    (RMat.ofFn n m f).get i j = if i < n ∧ j < m then f i j else 0 := by
  sorry

theorem RMat.ofFn_wf (n m : Nat) (f : Nat → Nat → Rat) : (RMat.ofFn n m f).WF n m := by
  sorry

theorem gram_wf (B : RMat) : (gram B).WF B.size B.size := by
  sorry

/-- entries of the Gram matrix are dot products of sensor rows -/
theorem gram_get (B : RMat) (m : Nat) (hB : B.WF B.size m) (a b : Nat)
    (ha : a < B.size) (hb : b < B.size) :
    (gram B).get a b = B.vec m a ⬝ᵥ B.vec m b := by
  sorry

theorem schur_wf (G : RMat) (n q : Nat) (hG : G.WF n n) : (schur G q).WF n n := by
  sorry

/-- entries after one Schur-complement step -/
theorem schur_get (G : RMat) (n : Nat) (hG : G.WF n n) (q a b : Nat) :
    (schur G q).get a b =
      if G.get q q = 0 then G.get a b else G.get a b - G.get a q * G.get q b / G.get q q := by
  sorry

/-- modified Gram–Schmidt deflation of `a` against the residual direction `q`
(nothing is removed when `q` is the zero vector) -/
def deflate {m : Nat} (q a : Fin m → ℚ) : Fin m → ℚ :=
  if q ⬝ᵥ q = 0 then a else a - ((a ⬝ᵥ q) / (q ⬝ᵥ q)) • q

/-- residual sensor rows after ranking the sensors `picks` in that order: each pick deflates
every row against the *current* residual of the picked sensor -/
def mgsResid {m : Nat} (rows : Nat → Fin m → ℚ) : List Nat → (Nat → Fin m → ℚ)
  | [] => rows
  | q :: qs => mgsResid (fun a => deflate (rows q) (rows a)) qs

theorem deflate_dot {m : Nat} (q a b : Fin m → ℚ) (hq : q ⬝ᵥ q ≠ 0) :
    deflate q a ⬝ᵥ deflate q b = a ⬝ᵥ b - (a ⬝ᵥ q) * (q ⬝ᵥ b) / (q ⬝ᵥ q) := by
  sorry

theorem deflate_orth {m : Nat} (q a : Fin m → ℚ) (hq : q ⬝ᵥ q ≠ 0) : deflate q a ⬝ᵥ q = 0 := by
  sorry

theorem deflate_norm_le {m : Nat} (q a : Fin m → ℚ) :
    deflate q a ⬝ᵥ deflate q a ≤ a ⬝ᵥ a := by
  sorry

/-- **Schur diagonal = squared MGS residual.** The state reached by eliminating `picks` from
the Gram matrix of `B` is the Gram matrix of the MGS residual rows. -/
theorem schur_fold_eq_mgs (B : RMat) (m : Nat) (hB : B.WF B.size m) (picks : List Nat)
    (hp : ∀ q ∈ picks, q < B.size) (a b : Nat) (ha : a < B.size) (hb : b < B.size) :
    (picks.foldl schur (gram B)).get a b =
      mgsResid (B.vec m) picks a ⬝ᵥ mgsResid (B.vec m) picks b := by
  sorry

theorem schur_fold_wf (B : RMat) (picks : List Nat) :
    (picks.foldl schur (gram B)).WF B.size B.size := by
  sorry

/-- squared residual norms are non-negative -/
theorem schur_fold_diag_nonneg (B : RMat) (m : Nat) (hB : B.WF B.size m) (picks : List Nat)
    (hp : ∀ q ∈ picks, q < B.size) (a : Nat) :
    0 ≤ (picks.foldl schur (gram B)).get a a := by
  sorry

/-- residual norms never grow when one more sensor is ranked -/
theorem schur_fold_diag_antitone (B : RMat) (m : Nat) (hB : B.WF B.size m) (picks : List Nat)
    (q : Nat) (hp : ∀ x ∈ picks, x < B.size) (hq : q < B.size) (a : Nat) (ha : a < B.size) :
    ((picks ++ [q]).foldl schur (gram B)).get a a ≤ (picks.foldl schur (gram B)).get a a := by
  sorry

/-- a ranked sensor has zero residual ever after -/
theorem mgsResid_pick_zero {m : Nat} (rows : Nat → Fin m → ℚ) (picks : List Nat) (q : Nat)
    (hq : q ∈ picks) : mgsResid rows picks q = 0 := by
  sorry

/-- the residual is orthogonal to every *original* row of an already ranked sensor -/
theorem mgsResid_orth_rows {m : Nat} (rows : Nat → Fin m → ℚ) (picks : List Nat) (a q : Nat)
    (hq : q ∈ picks) : mgsResid rows picks a ⬝ᵥ rows q = 0 := by
  sorry

/-- what was removed lies in the span of the ranked sensors' rows -/
theorem mgsResid_sub_mem_span {m : Nat} (rows : Nat → Fin m → ℚ) (picks : List Nat) (a : Nat) :
    rows a - mgsResid rows picks a ∈ Submodule.span ℚ (Set.range fun i : Fin picks.length => rows picks[i]) := by
  sorry

/-- if every pick had non-zero residual at the time it was ranked, the picked rows are
linearly independent -/
theorem picks_linearIndependent {m : Nat} (rows : Nat → Fin m → ℚ) (picks : List Nat)
    (hpos : ∀ j (hj : j < picks.length),
      mgsResid rows (picks.take j) picks[j] ⬝ᵥ mgsResid rows (picks.take j) picks[j] ≠ 0) :
    LinearIndependent ℚ (fun i : Fin picks.length => rows picks[i]) := by
  sorry

end PsVerif
