/-
  C18 — the ranking depends only on the geometry of the sensor rows.
  Property theorems only.
-/
import PsVerif.Lemmas.Greedy
import PsVerif.Lemmas.SqrtOrder
import PsVerif.Lemmas.GramAlg
import Mathlib.Data.Matrix.Mul
namespace PsVerif
open Matrix

variable {σ τ : Type}

/-- **C18 (only the Gram matrix matters).** The exact model of every optimizer (any costs, any mask)
reads the basis matrix only through the number of sensors and the Gram matrix of the sensor rows. -/
theorem run_depends_on_gram_only (B B' : RMat) (hs : B.size = B'.size) (hg : gram B = gram B')
    (costs : Nat → Rat) (mask : Mask) (k : Nat) :
    greedyRun costs mask B k = greedyRun costs mask B' k := by
  sorry

/-- **C18 (right-orthogonal mixing).** Multiplying the basis matrix on the right by an orthogonal
matrix (reordering training examples, flipping mode signs, rotating modes) leaves the Gram matrix of
the sensor rows unchanged. -/
theorem gram_mul_orthogonal {n m : ℕ} (B : Matrix (Fin n) (Fin m) ℚ) (Q : Matrix (Fin m) (Fin m) ℚ)
    (hQ : Q * Qᵀ = 1) : (B * Q) * (B * Q)ᵀ = B * Bᵀ := by
  sorry

/-- entrywise: the dot product of two sensor rows is unchanged -/
theorem row_dot_mul_orthogonal {n m : ℕ} (B : Matrix (Fin n) (Fin m) ℚ) (Q : Matrix (Fin m) (Fin m) ℚ)
    (hQ : Q * Qᵀ = 1) (a b : Fin n) : (B * Q) a ⬝ᵥ (B * Q) b = B a ⬝ᵥ B b := by
  sorry

/-- the array-level Gram matrix is determined by the dot products of the rows -/
theorem gram_eq_of_dots (B B' : RMat) (hs : B.size = B'.size)
    (h : ∀ a b, a < B.size → b < B.size → dotL (B.row a) (B.row b) = dotL (B'.row a) (B'.row b)) :
    gram B = gram B' := by
  sorry

/-- A *simulation* between two residual systems: related states give the same comparison outcome for
every pair of candidates (under the respective cost vectors), and eliminating the same sensor keeps
the states related. -/
structure ScoreSim (S : ResidSys σ) (S' : ResidSys τ) (costs costs' : Nat → Rat) (R : σ → τ → Prop) : Prop where
  cmp : ∀ s s', R s s' → ∀ (a b : Nat) (za zb : Bool),
    scoreGe ((if za then 0 else S'.norm2 s' a), costs' a) ((if zb then 0 else S'.norm2 s' b), costs' b) =
    scoreGe ((if za then 0 else S.norm2 s a), costs a) ((if zb then 0 else S.norm2 s b), costs b)
  elim : ∀ s s', R s s' → ∀ q, R (S.elim s q) (S'.elim s' q)

/-- **C18 (general invariance principle).** Two runs whose states stay related by a score-preserving
simulation make the same choices: identical permutations after every number of steps. -/
theorem greedy_simulation (S : ResidSys σ) (S' : ResidSys τ) (costs costs' : Nat → Rat)
    (R : σ → τ → Prop) (hsim : ScoreSim S S' costs costs' R) (mask : Mask) (s0 : σ) (s0' : τ)
    (h0 : R s0 s0') (n k : Nat) :
    (greedyRunFrom S' costs' mask s0' n k).p = (greedyRunFrom S costs mask s0 n k).p ∧
      R (greedyRunFrom S costs mask s0 n k).lin (greedyRunFrom S' costs' mask s0' n k).lin := by
  sorry

/-- scaling every entry of a matrix -/
def RMat.scale (t : Rat) (G : RMat) : RMat := G.map fun r => r.map fun x => t * x

/-- **C18 (positive rescaling).** Rescaling the basis matrix by `s > 0` (Gram matrix by `s²`) and the
costs by `s` leaves every choice unchanged, for every mask: same ranking after every number of steps. -/
theorem scale_invariant (G : RMat) (n : Nat) (hG : G.WF n n) (hnn : ∀ picks : List Nat, ∀ c, 0 ≤ (picks.foldl schur G).get c c)
    (s : Rat) (hs : 0 < s) (costs : Nat → Rat) (mask : Mask) (k : Nat) :
    (greedyRunFrom gramSys (fun c => s * costs c) mask (RMat.scale (s * s) G) n k).p =
      (greedyRunFrom gramSys costs mask G n k).p := by
  sorry

end PsVerif
