/-
  Helper lemmas: greedy steps under candidate-wise masks (`pmask φ`), zero costs.
  Imports Mathlib only through Lemmas/SqrtOrder (order properties of `scoreGe`).
-/
import PsVerif.Lemmas.Greedy
import PsVerif.Lemmas.SqrtOrder
import PsVerif.Model.NormCalc
namespace PsVerif

variable {σ : Type}

/-- zero cost vector -/
abbrev zc : Nat → Rat := fun _ => 0

/-- masked value of a candidate: its squared residual norm, or 0 when zeroed -/
def mval (S : ResidSys σ) (φ : Nat → Nat → Bool) (st : GState σ) (j c : Nat) : Rat :=
  if φ j c then 0 else S.norm2 st.lin c

theorem candScores_pmask (S : ResidSys σ) (st : GState σ) (costs : Nat → Rat)
    (φ : Nat → Nat → Bool) (j : Nat) :
    candScores S st costs (pmask φ) j =
      (st.p.toList.drop j).map fun c => (mval S φ st j c, costs c) := by
  sorry

theorem noMask_eq_pmask : noMask = pmask (fun _ _ => false) := by
  sorry

/-- with equal costs `scoreGe` compares the squared norms -/
theorem scoreGe_same_cost (a b c : Rat) : scoreGe (a, c) (b, c) = decide (b ≤ a) := by
  sorry

/-- The pick of a masked zero-cost step is a candidate whose masked value is maximal. -/
theorem masked_pick_spec (S : ResidSys σ) (φ : Nat → Nat → Bool) (s0 : σ) (n j : Nat) (hj : j < n)
    (hnn : ∀ c, 0 ≤ S.norm2 (greedyRunFrom S zc (pmask φ) s0 n j).lin c) (q : Nat)
    (hq : (greedyRunFrom S zc (pmask φ) s0 n (j + 1)).p[j]? = some q) :
    let st := greedyRunFrom S zc (pmask φ) s0 n j
    q ∈ st.p.toList.drop j ∧ ∀ c ∈ st.p.toList.drop j, mval S φ st j c ≤ mval S φ st j q := by
  sorry

/-- there always is a pick at a step `j < n` -/
theorem pick_exists (S : ResidSys σ) (costs : Nat → Rat) (mask : Mask) (s0 : σ) (n j k : Nat)
    (hj : j < n) : ∃ q, (greedyRunFrom S costs mask s0 n k).p[j]? = some q := by
  sorry

/-- (I5) if some candidate is not zeroed and has positive norm, the pick is not zeroed, has
positive norm, and has the largest norm among the candidates that are not zeroed. -/
theorem masked_pick_unmasked (S : ResidSys σ) (φ : Nat → Nat → Bool) (s0 : σ) (n j : Nat)
    (hj : j < n)
    (hnn : ∀ c, 0 ≤ S.norm2 (greedyRunFrom S zc (pmask φ) s0 n j).lin c) (q : Nat)
    (hq : (greedyRunFrom S zc (pmask φ) s0 n (j + 1)).p[j]? = some q)
    (hex : ∃ c ∈ (greedyRunFrom S zc (pmask φ) s0 n j).p.toList.drop j,
      φ j c = false ∧ 0 < S.norm2 (greedyRunFrom S zc (pmask φ) s0 n j).lin c) :
    let st := greedyRunFrom S zc (pmask φ) s0 n j
    φ j q = false ∧ 0 < S.norm2 st.lin q ∧
      ∀ c ∈ st.p.toList.drop j, φ j c = false → S.norm2 st.lin c ≤ S.norm2 st.lin q := by
  sorry

/-- Coincidence of one step: if the pick of the unmasked step is not zeroed by `φ`, the masked
step makes the same pick (every other value is unchanged or lowered). -/
theorem masked_step_coincide (S : ResidSys σ) (φ : Nat → Nat → Bool) (st : GState σ) (j : Nat)
    (hj : j < st.p.size) (hnn : ∀ c, 0 ≤ S.norm2 st.lin c) (q0 : Nat)
    (hq0 : (greedyStep S zc noMask st j).p[j]? = some q0) (hφ : φ j q0 = false) :
    greedyStep S zc (pmask φ) st j = greedyStep S zc noMask st j := by
  sorry

/-- Coincidence of runs: if none of the first `J` unconstrained picks is zeroed at its step,
the constrained run equals the unconstrained run for `J` steps. -/
theorem masked_run_coincide (S : ResidSys σ) (φ : Nat → Nat → Bool) (s0 : σ) (n J : Nat)
    (hJ : J ≤ n)
    (hnn : ∀ j < J, ∀ c, 0 ≤ S.norm2 (greedyRunFrom S zc noMask s0 n j).lin c)
    (hφ : ∀ j < J, ∀ q, (greedyRunFrom S zc noMask s0 n (j + 1)).p[j]? = some q → φ j q = false) :
    greedyRunFrom S zc (pmask φ) s0 n J = greedyRunFrom S zc noMask s0 n J := by
  sorry

/-- the first `N` entries after `k ≥ N` steps are the first `N` picks -/
theorem greedyRunFrom_take (S : ResidSys σ) (costs : Nat → Rat) (mask : Mask) (s0 : σ)
    (n N k : Nat) (hNk : N ≤ k) :
    (greedyRunFrom S costs mask s0 n k).p.toList.take N =
      (greedyRunFrom S costs mask s0 n N).p.toList.take N := by
  sorry

/-- entry `j` of the first `N` picks, as the pick of step `j` -/
theorem greedyRunFrom_take_getElem? (S : ResidSys σ) (costs : Nat → Rat) (mask : Mask) (s0 : σ)
    (n N j : Nat) (hj : j < N) :
    ((greedyRunFrom S costs mask s0 n N).p.toList.take N)[j]? =
      (greedyRunFrom S costs mask s0 n (j + 1)).p[j]? := by
  sorry

/-- the picks before step `j` are the first `j` entries at any later time -/
theorem greedyRunFrom_take_take (S : ResidSys σ) (costs : Nat → Rat) (mask : Mask) (s0 : σ)
    (n j k : Nat) (hjk : j ≤ k) :
    (greedyRunFrom S costs mask s0 n k).p.toList.take j =
      (greedyRunFrom S costs mask s0 n j).p.toList.take j := by
  sorry

/-- counting region sensors in a full permutation -/
theorem countP_region_perm (L : List Nat) (n : Nat) (hL : ∀ x ∈ L, x < n) (hLn : L.Nodup)
    (p : List Nat) (hp : p.Perm (List.range n)) : p.countP (inL L) = L.length := by
  sorry

/-- … and outside the region -/
theorem countP_not_region_perm (L : List Nat) (n : Nat) (hL : ∀ x ∈ L, x < n) (hLn : L.Nodup)
    (p : List Nat) (hp : p.Perm (List.range n)) :
    p.countP (fun c => !(inL L c)) = n - L.length := by
  sorry

end PsVerif
