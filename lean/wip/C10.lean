/-
  C10 — sparse sensor weights reproduce the full-state discriminant.
  Property theorems only.  The minimisers are computed by scikit-learn (not verified); these theorems
  say what the numeric certificates checked on every real output imply.
-/
import Mathlib.Data.Matrix.Mul
import Mathlib.LinearAlgebra.Matrix.DotProduct
import Mathlib.Analysis.Real.Sqrt
import Mathlib.Algebra.Order.Field.Rat
import Mathlib.Algebra.BigOperators.Field
import Mathlib.Tactic.Ring
import Mathlib.Tactic.Linarith
import Mathlib.Tactic.FieldSimp
namespace PsVerif
open Matrix

/-- **C10 (two classes).** Orthogonal matching pursuit with an intercept fits the *centred* system.
If that fit is exact – `(Ψ − 1·x̄ᵀ) s = w − w̄·1` – then the sensor weights map through the basis
onto the classifier's weight vector up to ONE common offset `b = w̄ − x̄·s`. -/
theorem binary_offset {r n : ℕ} (Ψ : Matrix (Fin r) (Fin n) ℚ) (w : Fin r → ℚ) (s : Fin n → ℚ)
    (xbar : Fin n → ℚ) (wbar : ℚ)
    (hfit : ∀ i, ∑ j, (Ψ i j - xbar j) * s j = w i - wbar) :
    ∀ i, (Ψ *ᵥ s) i + (wbar - xbar ⬝ᵥ s) = w i := by
  sorry

/-- the offset is the same for every coordinate, so the spread (max − min) of `Ψ s − w` is zero -/
theorem binary_offset_spread {r n : ℕ} (Ψ : Matrix (Fin r) (Fin n) ℚ) (w : Fin r → ℚ) (s : Fin n → ℚ)
    (xbar : Fin n → ℚ) (wbar : ℚ)
    (hfit : ∀ i, ∑ j, (Ψ i j - xbar j) * s j = w i - wbar) (i i' : Fin r) :
    (Ψ *ᵥ s) i - w i = (Ψ *ᵥ s) i' - w i' := by
  sorry

/-- Euclidean norm of a row of the weight matrix (one row per sensor, one column per class) -/
noncomputable def rowNorm {c : ℕ} (v : Fin c → ℝ) : ℝ := Real.sqrt (∑ k, v k ^ 2)

/-- the row-sparse (group-lasso) least-squares objective with sparsity weight `α`:
`(1/2r)·‖W − X S‖²_F + α·Σ_j ‖S_j‖₂` -/
noncomputable def groupLasso {r n c : ℕ} (X : Matrix (Fin r) (Fin n) ℝ) (W : Matrix (Fin r) (Fin c) ℝ)
    (α : ℝ) (S : Matrix (Fin n) (Fin c) ℝ) : ℝ :=
  (1 / (2 * (r : ℝ))) * (∑ i, ∑ k, (W i k - (X * S) i k) ^ 2) + α * ∑ j, rowNorm (S j)

/-- gradient of the smooth part with respect to row `j` -/
noncomputable def glGrad {r n c : ℕ} (X : Matrix (Fin r) (Fin n) ℝ) (W : Matrix (Fin r) (Fin c) ℝ)
    (S : Matrix (Fin n) (Fin c) ℝ) (j : Fin n) (k : Fin c) : ℝ :=
  -(1 / (r : ℝ)) * ∑ i, X i j * (W i k - (X * S) i k)

/-- **C10 (more classes).** The KKT certificate implies global optimality: if on every active row
the gradient is `−α·S_j/‖S_j‖` and on every zero row its norm is at most `α`, then `S` minimises the
group-lasso objective whose sparsity weight is `α` (= `l1_penalty`). -/
theorem group_lasso_kkt_sufficient {r n c : ℕ} (hr : 0 < r) (X : Matrix (Fin r) (Fin n) ℝ)
    (W : Matrix (Fin r) (Fin c) ℝ) (α : ℝ) (hα : 0 ≤ α) (S : Matrix (Fin n) (Fin c) ℝ)
    (hact : ∀ j, rowNorm (S j) ≠ 0 → ∀ k, glGrad X W S j k + α * S j k / rowNorm (S j) = 0)
    (hzero : ∀ j, rowNorm (S j) = 0 → rowNorm (glGrad X W S j) ≤ α)
    (S' : Matrix (Fin n) (Fin c) ℝ) : groupLasso X W α S ≤ groupLasso X W α S' := by
  sorry

end PsVerif
