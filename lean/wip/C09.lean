/-
  C09 — classifier predictions match the most recent fit or sensor update.
  Property theorems only (model: Model/Sspoc.lean).  Core Lean.
-/
import PsVerif.Model.Sspoc
namespace PsVerif

/-- every `update_sensors` call of the history passes training data (as the property states) -/
def AllWithData : List SspocOp → Prop
  | [] => True
  | .update _ _ xy _ :: ops => xy = true ∧ AllWithData ops
  | .fit .. :: ops => AllWithData ops

theorem init_consistent (ns : Option PyCount) (thr : Option Rat) : (Sspoc.init ns thr).Consistent := by
  sorry

/-- one step preserves the invariant -/
theorem step_consistent (st : Sspoc) (op : SspocOp) (h : st.Consistent)
    (hop : match op with | .update _ _ xy _ => xy = true | .fit .. => True) :
    (st.step op).1.Consistent := by
  sorry

/-- **C09.** After any sequence of `fit(refit=True/False)`, `update_sensors(…, xy)` and
`update_n_basis_modes` (a `fit` for this machine) calls – accepted or rejected – the dispatch of
`predict` matches what the classifier was last trained on: sensor columns of the current
selection when it treats its input as sensor measurements, basis coordinates of the most recent
fit when it projects full-state input.  Never a stale one. -/
theorem dispatch_consistent (ns : Option PyCount) (thr : Option Rat) (ops : List SspocOp)
    (h : AllWithData ops) : ((Sspoc.init ns thr).run ops).Consistent := by
  sorry

/-- with zero sensors the dummy classifier is used -/
theorem zero_sensors_dummy (st : Sspoc) (hf : st.fitted = true) (h0 : st.nSensors = some (.int 0)) :
    st.predictKind = .dummy := by
  sorry

/-- the machine WITHOUT the reset of `refit_` in `fit` (the code before fix 8968a58) -/
def Sspoc.fitStale (st : Sspoc) (nFeat : Nat) (refitArg : Bool) (mag : List Rat) (dfltSel : List Nat) :
    Sspoc × Option Err :=
  let r := st.fit nFeat refitArg mag dfltSel
  -- refit_ keeps its old value unless update_sensors set it
  ({ r.1 with refit := r.1.refit || st.refit }, r.2)

/-- the invariant discriminates: on the unrepaired machine the two-call history
`fit(refit=True); fit(refit=False)` ends in an inconsistent state (stale `refit_`) -/
theorem stale_flag_breaks_invariant :
    let st0 := Sspoc.init (some (.int 2)) none
    let st1 := (st0.fitStale 4 true [1, 3, 0, 2] []).1
    let st2 := (st1.fitStale 4 false [1, 3, 0, 2] []).1
    st1.Consistent ∧ ¬ st2.Consistent := by
  sorry

end PsVerif
