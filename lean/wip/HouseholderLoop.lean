/-
  L1, whole loop: the elimination loop of `CCQR.fit` (and of `GQR.fit` on non-zero pivots) over ℝ, on the full matrix
  `R = Bᵀ` with columns indexed by SENSOR (the code's column swap only renames positions – `Model/Bookkeeping`), refines
  the iterated Schur complement of the exact model: after any sequence of pivots the Gram matrix of the rows not yet
  eliminated IS the model's state.  Consequently the column norms `dlens` the code computes at every step are, in exact
  real arithmetic, the square roots of the model's `norm2`, and the pivot decision `argmax (dlens − costs)` is the
  model's `firstArgmaxBy scoreGe`.
-/
import PsVerif.Lemmas.Householder
import PsVerif.Lemmas.GramAlg
import PsVerif.Lemmas.SqrtOrder
import PsVerif.Lemmas.Argmax
namespace PsVerif
open Matrix

variable {m n : ℕ}

/-- Gram entry of columns `a`, `b` over the rows not yet eliminated (`i ≥ row`):
`np.sum(R[row:, a] * R[row:, b])`; for `a = b` the square of the code's `dlens` entry -/
noncomputable def tailDot (R : Matrix (Fin m) (Fin n) ℝ) (row : ℕ) (a b : Fin n) : ℝ :=
  ∑ i : Fin m, if row ≤ i.val then R i a * R i b else 0

/-- `qr_reflector(R[row:, …])` for the chosen column `c`, padded with zeros above `row`:
`u = x/‖x‖; u[0] += sign(u[0]) + (u[0] == 0); u /= sqrt(abs(u[0]))` -/
noncomputable def reflectorAt (R : Matrix (Fin m) (Fin n) ℝ) (row : ℕ) (c : Fin n) : Fin m → ℝ :=
  let ρ := Real.sqrt (tailDot R row c c)
  let v0 : ℝ := ∑ i : Fin m, if i.val = row then R i c / ρ else 0
  let σ : ℝ := if v0 < 0 then -1 else 1
  fun i => (if i.val < row then 0 else if i.val = row then R i c / ρ + σ else R i c / ρ) / Real.sqrt |v0 + σ|

/-- one iteration of the loop body for pivot column (sensor) `c`.  Zero residual: the reflector is the zero vector, nothing
changes and `row` does not advance (CCQR after the zero-pivot fix).  Otherwise `R[row:, :] -= outer(u, u·R[row:, :])`,
`R[row+1:, c] = 0`, `row += 1`. -/
noncomputable def hhStep (st : Matrix (Fin m) (Fin n) ℝ × ℕ) (c : Fin n) : Matrix (Fin m) (Fin n) ℝ × ℕ :=
  if tailDot st.1 st.2 c c = 0 then st
  else
    (fun i a => if a = c ∧ st.2 < i.val then 0
                else st.1 i a - reflectorAt st.1 st.2 c i * ∑ k, reflectorAt st.1 st.2 c k * st.1 k a,
     st.2 + 1)

/-- the Schur step of the model on real Gram functions -/
noncomputable def schurR (G : Fin n → Fin n → ℝ) (c : Fin n) : Fin n → Fin n → ℝ :=
  if G c c = 0 then G else fun a b => G a b - G a c * G c b / G c c

/-- one step: the Gram matrix of the remaining rows after the step is the Schur complement of the one before -/
theorem hhStep_tailDot (R : Matrix (Fin m) (Fin n) ℝ) (row : ℕ) (c : Fin n) :
    tailDot (hhStep (R, row) c).1 (hhStep (R, row) c).2 = schurR (tailDot R row) c := by
  sorry

/-- **whole loop.** After any sequence of pivots the Gram matrix of the rows not yet eliminated is the iterated Schur
complement of the initial Gram matrix. -/
theorem hhRun_tailDot (R0 : Matrix (Fin m) (Fin n) ℝ) (picks : List (Fin n)) :
    tailDot (picks.foldl hhStep (R0, 0)).1 (picks.foldl hhStep (R0, 0)).2 = picks.foldl schurR (tailDot R0 0) := by
  sorry

/-- the real matrix `R = Bᵀ` of a rational basis matrix `B` (`n` sensors × `m` modes) -/
noncomputable def transposeR (B : RMat) (m n : ℕ) : Matrix (Fin m) (Fin n) ℝ := fun i a => ((B.get a.val i.val : ℚ) : ℝ)

/-- the initial Gram matrix of the loop is the model's `gram B` -/
theorem tailDot_transposeR (B : RMat) (m : ℕ) (hB : B.WF B.size m) (a b : Fin B.size) :
    tailDot (transposeR B m B.size) 0 a b = (((gram B).get a.val b.val : ℚ) : ℝ) := by
  sorry

/-- the real Schur step is the cast of the model's rational `schur` -/
theorem schurR_cast (G : RMat) (n : ℕ) (hG : G.WF n n) (c : Fin n) :
    schurR (fun a b : Fin n => ((G.get a.val b.val : ℚ) : ℝ)) c =
      fun a b : Fin n => (((schur G c.val).get a.val b.val : ℚ) : ℝ) := by
  sorry

/-- **L1 refinement, whole loop.** Running the Householder loop of the code over ℝ on `Bᵀ` with any pivot sequence, the
squared column norms and all Gram entries of the rows not yet eliminated are exactly (the casts of) the entries of the
exact model's state after the same picks. -/
theorem householder_loop_refines_model (B : RMat) (m : ℕ) (hB : B.WF B.size m) (picks : List (Fin B.size))
    (a b : Fin B.size) :
    tailDot (picks.foldl hhStep (transposeR B m B.size, 0)).1 (picks.foldl hhStep (transposeR B m B.size, 0)).2 a b
      = ((((picks.map Fin.val).foldl schur (gram B)).get a.val b.val : ℚ) : ℝ) := by
  sorry

/-- pivot decision of the code over ℝ: `np.argmax(dlens − costs)` = first index whose value no later one strictly exceeds -/
noncomputable def realArgmax (vals : List ℝ) : Nat :=
  firstArgmaxBy (fun x y => @decide (y ≤ x) (Classical.propDecidable _)) vals

/-- **the decisions agree.** For candidates with rational squared norms `n2 ≥ 0` and rational costs, the code's
`argmax(√n2 − cost)` over ℝ is the model's `firstArgmaxBy scoreGe`. -/
theorem realArgmax_eq_model (sc : List Score) (hnn : ∀ x ∈ sc, 0 ≤ x.1) :
    realArgmax (sc.map fun x => Real.sqrt ((x.1 : ℚ) : ℝ) - ((x.2 : ℚ) : ℝ)) = firstArgmaxBy scoreGe sc := by
  sorry

end PsVerif
