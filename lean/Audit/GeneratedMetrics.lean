import PsVerif.Generated.Metrics
#print axioms PsVerif.Gen.metrics_definitions
#print axioms PsVerif.Gen.metrics_determinant_is_model
