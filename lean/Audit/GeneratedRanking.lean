import PsVerif.Generated.Ranking
#print axioms PsVerif.Gen.pipe_ssporFit
#print axioms PsVerif.Gen.selection_predict_0
#print axioms PsVerif.Gen.selection_predict_1
#print axioms PsVerif.Gen.selection_predict_2
#print axioms PsVerif.Gen.selection_get_selected_sensors_0
