import PsVerif.Generated.Selection
#print axioms PsVerif.Gen.selection_update_sensors
#print axioms PsVerif.Gen.sel_topn1d
#print axioms PsVerif.Gen.sel_topn2d
#print axioms PsVerif.Gen.sel_thr1d
#print axioms PsVerif.Gen.sel_thr2d
#print axioms PsVerif.Gen.default_threshold_den
