import PsVerif.Generated.Bases
#print axioms PsVerif.Gen.bases_glue
#print axioms PsVerif.Gen.bases_rep_is_takeCols
