import PsVerif.Generated.Boxes
#print axioms PsVerif.Gen.box_Box
#print axioms PsVerif.Gen.box_DfBox
#print axioms PsVerif.Gen.indices_Box
