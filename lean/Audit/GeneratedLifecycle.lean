import PsVerif.Generated.Lifecycle
#print axioms PsVerif.Gen.life_updModes_is_spec
#print axioms PsVerif.Gen.life_updModes_denotes
#print axioms PsVerif.Gen.life_validate_is_spec
#print axioms PsVerif.Gen.life_validate_denotes
#print axioms PsVerif.Gen.life_setN_is_spec
#print axioms PsVerif.Gen.life_setN_denotes
#print axioms PsVerif.Gen.life_fitHead_is_spec
