import PsVerif.Generated.Lifecycle
#print axioms PsVerif.Gen.life_updModes_is_spec
#print axioms PsVerif.Gen.life_updModes_denotes
