import PsVerif.Generated.NormCalc
#print axioms PsVerif.Gen.normcalc_predetermined
