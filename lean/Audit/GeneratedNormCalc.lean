import PsVerif.Generated.NormCalc
#print axioms PsVerif.Gen.normcalc_max_n
#print axioms PsVerif.Gen.mask_max_n
#print axioms PsVerif.Gen.normcalc_exact_n
#print axioms PsVerif.Gen.mask_exact_n
#print axioms PsVerif.Gen.normcalc_predetermined
#print axioms PsVerif.Gen.mask_predetermined
