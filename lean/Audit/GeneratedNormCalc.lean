import PsVerif.Generated.NormCalc

