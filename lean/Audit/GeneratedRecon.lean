import PsVerif.Generated.Recon

