import PsVerif.Generated.Recon
#print axioms PsVerif.Gen.recon_predict
#print axioms PsVerif.Gen.recon_predict_is_model
