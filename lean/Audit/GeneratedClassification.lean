import PsVerif.Generated.Classification
#print axioms PsVerif.Gen.cls_pipeline
#print axioms PsVerif.Gen.cls_predict_is_model
