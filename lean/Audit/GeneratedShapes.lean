import PsVerif.Generated.Shapes
#print axioms PsVerif.Gen.shape_Circle
#print axioms PsVerif.Gen.shape_Cylinder
#print axioms PsVerif.Gen.shape_Line
#print axioms PsVerif.Gen.shape_Parabola
#print axioms PsVerif.Gen.shape_Ellipse
#print axioms PsVerif.Gen.shape_Polygon_edge
#print axioms PsVerif.Gen.indices_Circle
#print axioms PsVerif.Gen.indices_Cylinder
#print axioms PsVerif.Gen.indices_Line
#print axioms PsVerif.Gen.indices_Parabola
#print axioms PsVerif.Gen.indices_Ellipse
#print axioms PsVerif.Gen.loop_Polygon
