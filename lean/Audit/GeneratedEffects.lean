import PsVerif.Generated.Effects
#print axioms PsVerif.Gen.atomic_ssporSetN
#print axioms PsVerif.Gen.rejected_ssporSetN_writes_nothing
#print axioms PsVerif.Gen.atomic_ssporSetNAlias
#print axioms PsVerif.Gen.rejected_ssporSetNAlias_writes_nothing
#print axioms PsVerif.Gen.atomic_sspocUpdateSensors
#print axioms PsVerif.Gen.rejected_sspocUpdateSensors_writes_nothing
