import PsVerif

-- C01
#print axioms PsVerif.pivStep_perm
#print axioms PsVerif.pivStep_size
#print axioms PsVerif.foldl_pivStep_perm
#print axioms PsVerif.pivLoop_perm
#print axioms PsVerif.pivLoop_toList_perm
#print axioms PsVerif.pivLoop_count
#print axioms PsVerif.pivLoop_nodup
#print axioms PsVerif.pivLoop_mem
#print axioms PsVerif.tailShuffle_perm
#print axioms PsVerif.tailShuffle_take
#print axioms PsVerif.selected_spec
#print axioms PsVerif.ranking_pipeline_spec
-- C03
#print axioms PsVerif.qr_greedy_max
#print axioms PsVerif.gram_state_nonneg
#print axioms PsVerif.qr_pick_max_mgs_residual
#print axioms PsVerif.mgs_residual_characterisation
#print axioms PsVerif.leading_rows_independent
#print axioms PsVerif.zero_pick_all_zero
#print axioms PsVerif.ccqr_nocost_eq_qr
#print axioms PsVerif.gqr_unconstrained_eq_qr
-- C04
#print axioms PsVerif.candScores_noMask
#print axioms PsVerif.ccqr_score_exact
#print axioms PsVerif.ccqr_greedy_max
#print axioms PsVerif.ccqr_shift_invariant
#print axioms PsVerif.ccqr_zero_eq_qr
#print axioms PsVerif.ccqr_none_eq_qr
#print axioms PsVerif.ccqr_prohibitive
#print axioms PsVerif.zero_pivot_removes_nothing
