import PsVerif

-- C01
#print axioms PsVerif.pivStep_perm
#print axioms PsVerif.pivStep_size
#print axioms PsVerif.foldl_pivStep_perm
#print axioms PsVerif.pivLoop_perm
#print axioms PsVerif.pivLoop_toList_perm
#print axioms PsVerif.pivLoop_count
#print axioms PsVerif.pivLoop_nodup
#print axioms PsVerif.pivLoop_mem
#print axioms PsVerif.tailShuffle_perm
#print axioms PsVerif.tailShuffle_take
#print axioms PsVerif.selected_spec
#print axioms PsVerif.ranking_pipeline_spec
