import PsVerif

-- C01
#print axioms PsVerif.pivStep_perm
#print axioms PsVerif.pivStep_size
#print axioms PsVerif.foldl_pivStep_perm
#print axioms PsVerif.pivLoop_perm
#print axioms PsVerif.pivLoop_toList_perm
#print axioms PsVerif.pivLoop_count
#print axioms PsVerif.pivLoop_nodup
#print axioms PsVerif.pivLoop_mem
#print axioms PsVerif.tailShuffle_perm
#print axioms PsVerif.tailShuffle_take
#print axioms PsVerif.selected_spec
#print axioms PsVerif.ranking_pipeline_spec
-- C02
#print axioms PsVerif.solveExact_sound
#print axioms PsVerif.lstsqExact_sound
#print axioms PsVerif.recon_exact
#print axioms PsVerif.recon_exact_square
#print axioms PsVerif.measurements_eq
#print axioms PsVerif.more_sensors_injective
#print axioms PsVerif.independent_rows_injective
#print axioms PsVerif.qr_picks_nonzero_of_rank
#print axioms PsVerif.qr_leading_independent
#print axioms PsVerif.qr_default_recon_exact
#print axioms PsVerif.qr_default_recon_exact_run
#print axioms PsVerif.finrank_rowspace_of_mulVec_injective
#print axioms PsVerif.finrank_rows_of_mulVec_injective
#print axioms PsVerif.qr_default_recon_exact_of_injective
-- C03
#print axioms PsVerif.qr_greedy_max
#print axioms PsVerif.gram_state_nonneg
#print axioms PsVerif.qr_pick_max_mgs_residual
#print axioms PsVerif.mgs_residual_characterisation
#print axioms PsVerif.leading_rows_independent
#print axioms PsVerif.zero_pick_all_zero
#print axioms PsVerif.ccqr_nocost_eq_qr
#print axioms PsVerif.gqr_unconstrained_eq_qr
#print axioms PsVerif.sspor_lead_eq_optimizer
#print axioms PsVerif.householder_step_refines_schur
#print axioms PsVerif.householder_loop_refines_schur_model
#print axioms PsVerif.code_argmax_is_model_argmax
-- C04
#print axioms PsVerif.candScores_noMask
#print axioms PsVerif.ccqr_score_exact
#print axioms PsVerif.ccqr_greedy_max
#print axioms PsVerif.ccqr_shift_invariant
#print axioms PsVerif.ccqr_zero_eq_qr
#print axioms PsVerif.ccqr_none_eq_qr
#print axioms PsVerif.ccqr_prohibitive
#print axioms PsVerif.zero_pivot_removes_nothing
-- C05
#print axioms PsVerif.predetermined_split
#print axioms PsVerif.maxN_count_le
#print axioms PsVerif.exactN_count_eq
#print axioms PsVerif.sspor_selection_eq_optimizer
-- C06
#print axioms PsVerif.gqr_own_class_max
#print axioms PsVerif.gqr_inactive_eq_qr
#print axioms PsVerif.gqr_s0_eq_ccqr_prohibitive
-- C07
#print axioms PsVerif.predict_in_span
#print axioms PsVerif.predict_least_squares
#print axioms PsVerif.predict_interpolates
#print axioms PsVerif.predict_linear
#print axioms PsVerif.predict_linear_minnorm
#print axioms PsVerif.predictExact_rows
-- C08
#print axioms PsVerif.insertDesc_perm
#print axioms PsVerif.insertDesc_sorted
#print axioms PsVerif.foldl_insertDesc_perm
#print axioms PsVerif.foldl_insertDesc_sorted
#print axioms PsVerif.argsortDesc_perm
#print axioms PsVerif.argsortDesc_sorted
#print axioms PsVerif.topN_spec
#print axioms PsVerif.topN_prefix
#print axioms PsVerif.thresh_iff
#print axioms PsVerif.thresh_nodup
#print axioms PsVerif.thresh_antitone
#print axioms PsVerif.absR_nonneg
#print axioms PsVerif.magnitudes_nonneg_oneD
#print axioms PsVerif.thresh_zero_all
#print axioms PsVerif.default_threshold_sq
#print axioms PsVerif.update_rejected_unchanged
#print axioms PsVerif.update_count_ok_gen
#print axioms PsVerif.update_count_ok
#print axioms PsVerif.fit_count_ok
-- C09
#print axioms PsVerif.init_consistent
#print axioms PsVerif.consistent_iff
#print axioms PsVerif.update_consistent
#print axioms PsVerif.update_consistent_noxy
#print axioms PsVerif.fit_consistent
#print axioms PsVerif.step_consistent
#print axioms PsVerif.dispatch_consistent
#print axioms PsVerif.zero_sensors_dummy
#print axioms PsVerif.stale_flag_breaks_invariant
-- C10
#print axioms PsVerif.binary_offset
#print axioms PsVerif.binary_offset_spread
#print axioms PsVerif.rowNorm_nonneg
#print axioms PsVerif.rowNorm_sq
#print axioms PsVerif.cs_rowNorm
#print axioms PsVerif.rowNorm_neg
#print axioms PsVerif.rowNorm_eq_zero
#print axioms PsVerif.smooth_lower_bound
#print axioms PsVerif.row_bound
#print axioms PsVerif.group_lasso_kkt_sufficient
#print axioms PsVerif.binary_fit_rescales
#print axioms PsVerif.binary_offset_any_units
-- C11
#print axioms PsVerif.takeCols_takeCols
#print axioms PsVerif.takeCols_get
#print axioms PsVerif.takeCols_shape
#print axioms PsVerif.rep_rejects_gt
#print axioms PsVerif.orthonormal_left_inverse
#print axioms PsVerif.rank_k_reproduced
#print axioms PsVerif.gram_pinv_left_inverse
#print axioms PsVerif.rp_modes_in_span
#print axioms PsVerif.identity_exact
-- C12
#print axioms PsVerif.constraintIndices_mem
#print axioms PsVerif.constraintIndices_sublist
#print axioms PsVerif.in_out_partition
#print axioms PsVerif.circle_in_iff
#print axioms PsVerif.circle_out_iff
#print axioms PsVerif.cylinderZ_in_iff
#print axioms PsVerif.parabola_in_iff
#print axioms PsVerif.ellipse_axis_aligned_in_iff
#print axioms PsVerif.line_strictly_right
#print axioms PsVerif.gridPt_spec
#print axioms PsVerif.polygon_rectangle
#print axioms PsVerif.translated_shape_indices
#print axioms PsVerif.translated_line_indices
#print axioms PsVerif.translated_polygon
-- C13
#print axioms PsVerif.box_order
#print axioms PsVerif.transposeIdx_involutive
#print axioms PsVerif.box_set
#print axioms PsVerif.dfBox_mem
#print axioms PsVerif.ravel_unravel
#print axioms PsVerif.unravel_ravel
#print axioms PsVerif.module_name_spec
#print axioms PsVerif.module_name_old_wrong
-- C14
#print axioms PsVerif.selected_eq_take
#print axioms PsVerif.setN_preserves_ranking
#print axioms PsVerif.setN_ok_iff
#print axioms PsVerif.setN_ok_value
#print axioms PsVerif.setN_rejected_unchanged
#print axioms PsVerif.setN_fitted
#print axioms PsVerif.lastAccepted_cons_some
#print axioms PsVerif.lastAccepted_cons_none
#print axioms PsVerif.setters_last_wins
#print axioms PsVerif.setters_observe_last
#print axioms PsVerif.basis_fit_rep_rows
#print axioms PsVerif.ctor_fit_eq_fit_set
-- C15
#print axioms PsVerif.BasisSt.fit_kind
#print axioms PsVerif.BasisSt.fit_nModes
#print axioms PsVerif.BasisSt.fit_congr
#print axioms PsVerif.BasisSt.rep_congr
#print axioms PsVerif.Sspor.fit_eq_tail
#print axioms PsVerif.fit_is_reset_partial
#print axioms PsVerif.fit_preserves_settings
#print axioms PsVerif.fit_failed_keeps_ranking
#print axioms PsVerif.fit_failed_is_not_reset
#print axioms PsVerif.fit_after_history_is_reset
#print axioms PsVerif.identity_default_freezes
#print axioms PsVerif.update_modes_prefix
#print axioms PsVerif.update_modes_invalid_unchanged
-- C16
#print axioms PsVerif.lead_seed_independent
#print axioms PsVerif.lead_untouched
#print axioms PsVerif.tailShuffle_drop
#print axioms PsVerif.tail_set_seed_independent
#print axioms PsVerif.same_seed_same_ranking
#print axioms PsVerif.no_tail_seed_irrelevant
-- C17
#print axioms PsVerif.rel_error_identity
#print axioms PsVerif.det_gram_nonneg
#print axioms PsVerif.theta_eq_gather
#print axioms PsVerif.determinantModel_nonneg
#print axioms PsVerif.foldl_sq_zero
#print axioms PsVerif.foldl_foldl_sq_zero
#print axioms PsVerif.sqErr_self
-- C18
#print axioms PsVerif.run_depends_on_gram_only
#print axioms PsVerif.gram_mul_orthogonal
#print axioms PsVerif.row_dot_mul_orthogonal
#print axioms PsVerif.gram_eq_of_dots
#print axioms PsVerif.candScores_argmax_sim
#print axioms PsVerif.greedyStep_sim
#print axioms PsVerif.greedy_simulation
#print axioms PsVerif.RMat.get_scale
#print axioms PsVerif.RMat.scale_ofFn
#print axioms PsVerif.schur_scale
#print axioms PsVerif.scale_invariant
#print axioms PsVerif.strict_ranking_unique
#print axioms PsVerif.ranking_relabel_equivariant
#print axioms PsVerif.run_without_ties_is_strict
-- C19
#print axioms PsVerif.sspor_ctor_spec
#print axioms PsVerif.sspor_set_invalid
#print axioms PsVerif.sspor_set_unfitted
#print axioms PsVerif.sspor_selected_unfitted
#print axioms PsVerif.sspor_update_invalid
#print axioms PsVerif.sspor_update_needs_data
#print axioms PsVerif.sspor_update_too_many
#print axioms PsVerif.sspoc_update_invalid
#print axioms PsVerif.sspoc_update_neither
#print axioms PsVerif.sspoc_update_unfitted
#print axioms PsVerif.basisCtor_spec
#print axioms PsVerif.basisRep_spec
#print axioms PsVerif.predict_guard_spec
#print axioms PsVerif.full_state_guard_spec
#print axioms PsVerif.ccqr_costs_spec
#print axioms PsVerif.gqr_option_spec
#print axioms PsVerif.box_contradictory
#print axioms PsVerif.sspor_setter_is_its_guard
#print axioms PsVerif.sspor_ctor_is_its_guard
#print axioms PsVerif.sspoc_update_sensors_is_its_guard
#print axioms PsVerif.box_guard_is_its_tree_spec
-- C20
#print axioms PsVerif.analysis_sound
#print axioms PsVerif.check_rejects_write_through_view
#print axioms PsVerif.check_accepts_copy
