import PsVerif.Generated.Householder
#print axioms PsVerif.Gen.hh_CCQR
#print axioms PsVerif.Gen.hh_CCQR_reflector
#print axioms PsVerif.Gen.hh_CCQR_pick
#print axioms PsVerif.Gen.hh_GQR
#print axioms PsVerif.Gen.hh_GQR_reflector
