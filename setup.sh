#!/bin/sh
# Build the Lean models, theorems and driver from files on disk (offline), then run the axiom audit once
# (cached under lean/.lake, keyed by the SHA-256 of the Lean sources; checks re-run it when sources change).
set -e
cd "$(dirname "$0")"
( cd lean && lake build PsVerif driver )
# the committed generated files (regenerated from /repo by every check that owns one): pre-built so that a check on an unchanged tree finds
# nothing to compile; a failure here is not fatal – the owning check rebuilds and reports
( cd lean && lake build PsVerif.Generated.Alias PsVerif.Generated.Guards PsVerif.Generated.Effects PsVerif.Generated.Shapes PsVerif.Generated.Boxes \
    PsVerif.Generated.NormCalc PsVerif.Generated.Ranking PsVerif.Generated.Selection PsVerif.Generated.Householder PsVerif.Generated.Recon \
    PsVerif.Generated.Metrics PsVerif.Generated.Bases PsVerif.Generated.Classification ) || echo "setup: generated modules did not all build (the owning checks will report)"
/venv/bin/python - <<'PY'
import sys
sys.path.insert(0, '.')
from harness import common
d = common.run_audit(force=True)
bad = {n: a for n, a in d['theorems'].items() if not set(a) <= common.ALLOWED_AXIOMS}
print(f"audit: {len(d['theorems'])} theorems, non-standard axioms: {bad}, forbidden tokens: {d['forbidden']}")
sys.exit(1 if bad or d['forbidden'] else 0)
PY
