#!/venv/bin/python
"""For every kept seeded change: runs the quick check of ITS OWN property under several VERIF_SEED values against a scratch
worktree with the change applied and records how often it raises an alarm (seeded/robustness.json).  A change that is caught
only for some seeds means the generator reaches its trigger by luck.  Development tool, not a registered check."""
import json, os, subprocess, sys, tempfile, shutil
from concurrent.futures import ThreadPoolExecutor
VERIF = os.path.dirname(os.path.dirname(os.path.abspath(__file__)))
SEEDS = [1, 2, 3, 4]
dirs = sorted(d for d in os.listdir(os.path.join(VERIF, "seeded")) if os.path.isdir(os.path.join(VERIF, "seeded", d)))
only = sys.argv[1:] or dirs
serial = []       # every worker has its own copy of the lean directory
par = [d for d in only if d not in serial]

def run(sd):
    p = sd[:3]
    w = tempfile.mkdtemp(prefix=f"ps_rb_{sd}_"); os.rmdir(w)
    subprocess.run(["git", "-C", "/repo", "worktree", "add", "-q", "--detach", w, "HEAD"], check=True)
    ev = tempfile.mkdtemp(prefix="ps_rb_ev_")
    lean = tempfile.mkdtemp(prefix="ps_rb_lean_"); os.rmdir(lean)
    shutil.copytree(os.path.join(VERIF, "lean"), lean, symlinks=True)      # generated Lean files are rewritten per mutant: private copy
    hits = []
    try:
        subprocess.run(["git", "-C", w, "apply", os.path.join(VERIF, "seeded", sd, "patch.diff")], check=True)
        for s in SEEDS:
            r = subprocess.run([os.path.join(VERIF, "check"), p], cwd=VERIF, capture_output=True, text=True,
                               env=dict(os.environ, PYSENSORS_REPO=w, VERIF_EVIDENCE_DIR=ev, VERIF_SEED=str(s), VERIF_LEAN_DIR=lean))
            hits.append(r.returncode)
    finally:
        subprocess.run(["git", "-C", "/repo", "worktree", "remove", "--force", w])
        shutil.rmtree(ev, ignore_errors=True)
        shutil.rmtree(lean, ignore_errors=True)
    return sd, hits

out = {}
with ThreadPoolExecutor(max_workers=6) as ex:
    for sd, hits in ex.map(run, par):
        out[sd] = hits; print(sd, hits, flush=True)
for sd in serial:
    sd, hits = run(sd); out[sd] = hits; print(sd, hits, flush=True)
path = os.path.join(VERIF, "seeded", "robustness.json")
old = json.load(open(path)) if os.path.exists(path) else {}
old.update({k: {"seeds": SEEDS, "exit_codes": v} for k, v in out.items()})
json.dump(old, open(path, "w"), indent=1, sort_keys=True)
weak = {k: v for k, v in out.items() if any(x != 1 for x in v)}
print("NOT ALWAYS CAUGHT:", weak)
