#!/usr/bin/env python3
"""Regenerates MANIFEST.json from the table below (kept next to the checks so it stays current)."""
import json, os, sys
HERE = os.path.dirname(os.path.dirname(os.path.abspath(__file__)))

BASE_NOTE = ("Trusted: Lean 4.33 kernel with axioms propext, Classical.choice, Quot.sound only (audited every run; "
             "thorough tier re-checks with leanchecker); the hand-written Lean model is tied to /repo's working tree by "
             "the differential correspondence check of this run (generator coverage bounds what it sees); ")

CHECKS = {
 "C01": dict(
   cat="proof", technique="Lean 4 theorem (induction over swap loop, any pivot oracle) + model/implementation differential",
   text="Lean theorems pivLoop_perm / tailShuffle_perm / selected_spec / ranking_pipeline_spec prove for every pivot oracle, "
        "size, shuffle and sensor count that the ranking is a permutation and the selection a duplicate-free prefix of the "
        "reported length; the bookkeeping model is replayed against the real CCQR/GQR/SSPOR runs on every invocation.",
   ref="DESIGN.md §5 C01",
   note="LAPACK geqp3's pivot vector (QR) is a parameter, checked directly on each sample; numpy's Generator.permutation is the σ parameter."),
}
NOT_YET = {}

def main():
    props = [json.loads(l) for l in open(os.path.join(HERE, "properties.jsonl"))]
    checks, na = [], []
    for p in props:
        pid = p["id"]
        if pid in CHECKS:
            c = CHECKS[pid]
            checks.append({
              "property_id": pid,
              "quick_cmd": f"./check {pid} --tier quick",
              "thorough_cmd": f"./check {pid} --tier thorough",
              "evidence_file": f"evidence/{pid}.json",
              "replay_cmd_template": f"./check {pid} --replay {{path}}",
              "engine": "psverif",
              "level_claimed": {"category": c["cat"], "text": c["text"], "design_ref": c["ref"]},
              "level_note": BASE_NOTE + c["note"],
              "technique": c["technique"],
            })
        else:
            na.append({"property_id": pid, "reason": NOT_YET.get(pid, "check not built yet in this round (model and theorems planned in DESIGN.md §5); not claimed until it runs")})
    baseline = json.load(open("/root/.vp/BASELINE.json"))["cmd"].replace(" --junitxml=<file>", "")
    m = {
      "version": 1,
      "setup_cmd": "./setup.sh",
      "hooks": {"guard": "PYSENSORS_VERIF", "enable": "none needed: per-step taps are installed by monkey-patching module attributes from the harness; no instrumentation commits in /repo",
                "baseline_off_cmd": baseline, "source_commits": [], "add_only": True},
      "engines": [{"name": "psverif", "path": "check", "serves_properties": [c["property_id"] for c in checks],
                   "kind_free_text": "Lean 4 models + theorems (lean/), compiled model driver, Python differential harness (harness/)"}],
      "checks": checks,
      "not_applicable": na,
      "notes": "See DESIGN.md. ./check <id> [--tier quick|thorough] [--replay file]; exit 2 = machinery error.",
    }
    json.dump(m, open(os.path.join(HERE, "MANIFEST.json"), "w"), indent=1)
    print(f"{len(checks)} checks, {len(na)} not_applicable")

main()
