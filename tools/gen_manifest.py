#!/usr/bin/env python3
"""Regenerates MANIFEST.json from the table below (kept next to the checks so it stays current)."""
import json, os, sys
HERE = os.path.dirname(os.path.dirname(os.path.abspath(__file__)))

BASE_NOTE = ("Trusted: Lean 4.33 kernel with axioms propext, Classical.choice, Quot.sound only (audited every run; "
             "thorough tier re-checks with leanchecker); the hand-written Lean model is tied to /repo's working tree by "
             "the differential correspondence check of this run (generator coverage bounds what it sees); ")

CHECKS = {
 "C01": dict(
   cat="proof", technique="Lean 4 theorem (induction over swap loop, any pivot oracle) + model/implementation differential",
   text="Lean theorems pivLoop_perm / tailShuffle_perm / selected_spec / ranking_pipeline_spec prove for every pivot oracle, "
        "size, shuffle and sensor count that the ranking is a permutation and the selection a duplicate-free prefix of the "
        "reported length; the bookkeeping model is replayed against the real CCQR/GQR/SSPOR runs on every invocation.",
   ref="DESIGN.md §5 C01",
   note="LAPACK geqp3's pivot vector (QR) is a parameter, checked directly on each sample; numpy's Generator.permutation is the σ parameter."),
 "C03": dict(
   cat="proof", technique="Lean 4 theorems over an exact Gram/Schur model (greedy rule = max MGS residual) + ε-acceptance of real pivot traces",
   text="qr_pick_max_mgs_residual proves that every pick of the exact model has the largest modified-Gram–Schmidt residual among "
        "unranked sensors (with the orthogonal-residual characterisation, independence of leading rows, CCQR()/GQR() = QR in the model); "
        "real QR/CCQR/GQR/SSPOR traces are replayed through the model's executable definitions with budget 1e-9·scale and per-step norm taps.",
   ref="DESIGN.md §5 C03",
   note="Floating point is not modelled: ties within the budget are accepted either way and traces after a (near-)zero exact pivot with non-zero float residual are not judged (counted); the Householder update itself is tied to the Schur step by the per-step norm tap, not by proof; LAPACK geqp3 trusted but judged on each sample."),
 "C04": dict(
   cat="proof", technique="Lean 4 theorems (exact decision of sqrt(a)-c >= sqrt(b)-d against Real.sqrt; greedy maximality; shift invariance) + replay of tapped CCQR traces",
   text="ccqr_greedy_max (for every residual system and cost vector the pick maximises √resid²−cost over the reals), ccqr_shift_invariant, "
        "ccqr_zero_eq_qr, ccqr_prohibitive, zero_pivot_removes_nothing; the real CCQR trace (tapped through qr_reflector) is replayed in the exact model.",
   ref="DESIGN.md §5 C04",
   note="Holds on /repo after fix commit d029e07 (zero-residual pivot). Rounding budgeted as for C03."),
 "C05": dict(
   cat="proof", technique="Lean 4 theorems for every residual system (counting/coincidence arguments over the masked greedy run) + bit-exact differential of the mask functions",
   text="predetermined_split, maxN_count_le, exactN_count_eq hold for every residual system, region, N and feasible s (no bound), with concrete "
        "non-vacuity instances; the three mask functions are compared bit for bit with the Lean masks and real GQR / SSPOR(GQR) runs are replayed.",
   ref="DESIGN.md §5 C05",
   note="Hypothesis GqrSetup.hA (the supplied ranking's first N entries are the model's own unconstrained picks) excludes inputs where LAPACK broke an exact tie differently: that input class is a listed known finding."),
 "C06": dict(
   cat="proof", technique="Lean 4 theorems (own-class maximality, inactive constraint = QR, allowance 0 = CCQR with prohibitive cost) + replay of real GQR traces",
   text="gqr_own_class_max, gqr_inactive_eq_qr, gqr_s0_eq_ccqr_prohibitive for every residual system and option; own-class maximality and the two "
        "reductions are judged on real runs along the exact model.",
   ref="DESIGN.md §5 C06",
   note="Reductions are compared on real runs only where every exact greedy choice is unique by more than the budget."),
 "C14": dict(
   cat="proof", technique="Lean 4 theorems about a state-machine model of SSPOR (setters last-wins, ranking untouched) + history differential vs the real object and a fresh-model oracle",
   text="selected_eq_take, setN_preserves_ranking, setN_ok_iff, setN_rejected_unchanged, setters_last_wins, ctor_fit_eq_fit_set over all setter sequences; "
        "the machine's observable projection is compared with the real SSPOR after every call and the final state with a fresh model built with the final value.",
   ref="DESIGN.md §5 C14",
   note="The optimizer ranking and basis entries are parameters of the machine (taken from the real run)."),
 "C15": dict(
   cat="proof", technique="Lean 4 theorems about the SSPOR state machine (fit reads settings only) + history differential over datasets of different shapes + from-scratch reference",
   text="fit_is_reset_partial / fit_after_history_is_reset (a successful fit's outcome depends only on the settings), fit_preserves_settings, update_modes_prefix; "
        "the Identity() default-mode freeze is proved as a witness on the model (identity_default_freezes) and listed as a known finding.",
   ref="DESIGN.md §5 C15",
   note="Holds on /repo after fix commits 63a46df, 8363b27. `_partial`: the settings relation compares the basis attribute n_basis_modes, which Identity() overwrites on its first fit (known finding F7)."),
 "C16": dict(
   cat="proof", technique="Lean 4 theorems about tailShuffle (lead and tail set independent of the rearrangement) + seed-pair differential on real SSPOR",
   text="lead_seed_independent, lead_untouched, tail_set_seed_independent, same_seed_same_ranking, no_tail_seed_irrelevant for every rearrangement family; "
        "real rankings across seeds are compared pairwise and against tailShuffle with numpy's permutation as the parameter.",
   ref="DESIGN.md §5 C16",
   note="numpy's Generator.permutation is a parameter (a permutation, a function of the seed)."),
}
NOT_YET = {}

def main():
    props = [json.loads(l) for l in open(os.path.join(HERE, "properties.jsonl"))]
    checks, na = [], []
    for p in props:
        pid = p["id"]
        if pid in CHECKS:
            c = CHECKS[pid]
            checks.append({
              "property_id": pid,
              "quick_cmd": f"./check {pid} --tier quick",
              "thorough_cmd": f"./check {pid} --tier thorough",
              "evidence_file": f"evidence/{pid}.json",
              "replay_cmd_template": f"./check {pid} --replay {{path}}",
              "engine": "psverif",
              "level_claimed": {"category": c["cat"], "text": c["text"], "design_ref": c["ref"]},
              "level_note": BASE_NOTE + c["note"],
              "technique": c["technique"],
            })
        else:
            na.append({"property_id": pid, "reason": NOT_YET.get(pid, "check not built yet in this round (model and theorems planned in DESIGN.md §5); not claimed until it runs")})
    baseline = json.load(open("/root/.vp/BASELINE.json"))["cmd"].replace(" --junitxml=<file>", "")
    m = {
      "version": 1,
      "setup_cmd": "./setup.sh",
      "hooks": {"guard": "PYSENSORS_VERIF", "enable": "none needed: per-step taps are installed by monkey-patching module attributes from the harness; no instrumentation commits in /repo",
                "baseline_off_cmd": baseline, "source_commits": [], "add_only": True},
      "engines": [{"name": "psverif", "path": "check", "serves_properties": [c["property_id"] for c in checks],
                   "kind_free_text": "Lean 4 models + theorems (lean/), compiled model driver, Python differential harness (harness/)"}],
      "checks": checks,
      "not_applicable": na,
      "notes": "See DESIGN.md. ./check <id> [--tier quick|thorough] [--replay file]; exit 2 = machinery error.",
    }
    json.dump(m, open(os.path.join(HERE, "MANIFEST.json"), "w"), indent=1)
    print(f"{len(checks)} checks, {len(na)} not_applicable")

main()
