#!/usr/bin/env python3
"""Regenerates MANIFEST.json from the table below (kept next to the checks so it stays current)."""
import json, os, sys
HERE = os.path.dirname(os.path.dirname(os.path.abspath(__file__)))

BASE_NOTE = ("Trusted: Lean 4.33 kernel with axioms propext, Classical.choice, Quot.sound only (audited every run; "
             "thorough tier re-checks with leanchecker); the hand-written Lean model is tied to /repo's working tree by "
             "the differential correspondence check of this run (generator coverage bounds what it sees); ")

CHECKS = {
 "C01": dict(
   cat="proof", technique="Lean 4 theorem (induction over swap loop, any pivot oracle) + model/implementation differential + translator regenerating SSPOR.fit's post-optimizer statements and the reads of the ranking from the AST (Python slice arithmetic explicit), proved equal to tailShuffle / selectLead on every run",
   text="Lean theorems pivLoop_perm / tailShuffle_perm / selected_spec / ranking_pipeline_spec prove for every pivot oracle, "
        "size, shuffle and sensor count that the ranking is a permutation and the selection a duplicate-free prefix of the "
        "reported length; run_rankOK (Props/C01Life.lean, induction over the operations of the SSPOR state machine) lifts this to every history of accepted calls "
        "– fits on data of any widths, setter calls, mode updates, the basis object fitted behind the model's back, pickled copies: the ranking is a permutation of the "
        "sensor rows of the model's own basis matrix, and run_countOK / selected_length_is_count that the number of selected sensors is the reported count (rejected_fit_breaks_rankOK shows why rejected fits are excluded: finding F11); "
        "the bookkeeping model and the state machine are replayed against the real CCQR/GQR/SSPOR runs on every invocation.",
   ref="DESIGN.md §5 C01",
   note="Generated/Ranking.lean (harness/translate_ranking.py): pipe_ssporFit – the statements after the optimizer call are tailShuffle σ m for every ranking, mode count, sensor count and permutation oracle (seed must reach np.random.default_rng unmodified); selection_<method>_k – every slice of ranked_sensors_ in predict / get_selected_sensors is selectLead n_sensors. LAPACK geqp3's pivot vector (QR) is a parameter, checked directly on each sample; numpy's Generator.permutation is the σ parameter."),
 "C03": dict(
   cat="proof", technique="Lean 4 theorems over an exact Gram/Schur model (greedy rule = max MGS residual) + ε-acceptance of real pivot traces + translator regenerating pivot rule, reflector steps and loop-operation order of CCQR.fit / qr_reflector / GQR.fit from the AST (prog = spec by decide; reflector steps denote `reflector`, pivot rule = model argmax)",
   text="qr_pick_max_mgs_residual proves that every pick of the exact model has the largest modified-Gram–Schmidt residual among "
        "unranked sensors (with the orthogonal-residual characterisation, independence of leading rows, CCQR()/GQR() = QR in the model); "
        "householder_loop_refines_schur_model proves that the elimination loop of CCQR.fit over the reals (any pivot sequence, any rank) has exactly the model's Gram state, and code_argmax_is_model_argmax that argmax(dlens − costs) is the model's decision; "
        "real QR/CCQR/GQR/SSPOR traces are replayed through the model's executable definitions with per-step budgets 1e-12·scale·conditioning and per-step norm taps.",
   ref="DESIGN.md §5 C03",
   note="Generated/Householder.lean (harness/translate_householder.py): hh_CCQR / hh_GQR (program as written = the program hhStep / reflectorAt were transcribed from), hh_*_reflector (its steps denote the reflector of Lemmas/Householder.lean), hh_CCQR_pick (its pivot rule is firstArgmaxBy scoreGe); the order of the array operations is compared structurally, not given a matrix semantics. Floating point is not modelled: ties within the budget are accepted either way and traces after an exactly-zero pivot with non-zero float residual are not judged (counted); that the float code is the algorithm of the loop theorem is tied by the per-step norm tap and the pivot traces; LAPACK geqp3 trusted but judged on each sample."),
 "C04": dict(
   cat="proof", technique="Lean 4 theorems (exact decision of sqrt(a)-c >= sqrt(b)-d against Real.sqrt; greedy maximality; shift invariance) + replay of tapped CCQR traces + translator regenerating pivot rule, reflector steps and loop-operation order of CCQR.fit / qr_reflector / GQR.fit from the AST (prog = spec by decide; reflector steps denote `reflector`, pivot rule = model argmax)",
   text="ccqr_greedy_max (for every residual system and cost vector the pick maximises √resid²−cost over the reals), ccqr_shift_invariant, "
        "ccqr_zero_eq_qr, ccqr_prohibitive, zero_pivot_removes_nothing; the real CCQR trace (tapped through qr_reflector) is replayed in the exact model.",
   ref="DESIGN.md §5 C04",
   note="Generated/Householder.lean (harness/translate_householder.py): hh_CCQR / hh_GQR (program as written = the program hhStep / reflectorAt were transcribed from), hh_*_reflector (its steps denote the reflector of Lemmas/Householder.lean), hh_CCQR_pick (its pivot rule is firstArgmaxBy scoreGe); the order of the array operations is compared structurally, not given a matrix semantics. Holds on /repo after fix commit d029e07 (zero-residual pivot). Rounding budgeted as for C03."),
 "C05": dict(
   cat="proof", technique="Lean 4 theorems for every residual system (counting/coincidence arguments over the masked greedy run) + compiler from the Python source of the three mask functions to Lean functions, each proved equal to the model's masks on every run + bit-exact differential of the mask functions",
   text="harness/translate_normcalc.py compiles max_n / exact_n / predetermined of _norm_calc.py statement by statement (assignments, +=, in-place zeroing, if/else, the counting loop as a fold, np.isin / slices / masks; keyword presence decided from GQR.fit's call) into Generated/NormCalcDefs.lean; "
        "normcalc_max_n / _exact_n / _predetermined (the compiled function = the candidate-wise model, for all inputs in the functions' domain; the loop by the invariant lemma maxN_loop) and mask_<option> (= GqrCfg.mask, the object of the theorems) are re-checked by lake. predetermined_split, maxN_count_le, exactN_count_eq hold for every residual system, region, N and feasible s (no bound), with concrete "
        "non-vacuity instances; the three mask functions are compared bit for bit with the Lean masks and real GQR / SSPOR(GQR) runs are replayed.",
   ref="DESIGN.md §5 C05",
   note="The compiler's reading of the numpy fragment (Model/NpLite.lean: isin, boolean selection, slices, zeroing as a zero pattern) is trusted and exercised by the bit-exact differential. Hypothesis GqrSetup.hA (the supplied ranking's first N entries are the model's own unconstrained picks) excludes inputs where LAPACK broke an exact tie differently: that input class is a listed known finding."),
 "C06": dict(
   cat="proof", technique="Lean 4 theorems (own-class maximality, inactive constraint = QR, allowance 0 = CCQR with prohibitive cost) + mask functions recompiled from the source and proved equal to the model's masks + replay of real GQR traces + translator regenerating pivot rule, reflector steps and loop-operation order of CCQR.fit / qr_reflector / GQR.fit from the AST (prog = spec by decide; reflector steps denote `reflector`, pivot rule = model argmax)",
   text="gqr_own_class_max, gqr_inactive_eq_qr, gqr_s0_eq_ccqr_prohibitive for every residual system and option (about GqrCfg.mask, which the regenerated theorems mask_max_n / mask_exact_n / mask_predetermined of C05's compiler tie to the current source of _norm_calc.py on every run); own-class maximality and the two "
        "reductions are judged on real runs along the exact model.",
   ref="DESIGN.md §5 C06",
   note="Generated/Householder.lean (harness/translate_householder.py): hh_CCQR / hh_GQR (program as written = the program hhStep / reflectorAt were transcribed from), hh_*_reflector (its steps denote the reflector of Lemmas/Householder.lean), hh_CCQR_pick (its pivot rule is firstArgmaxBy scoreGe); the order of the array operations is compared structurally, not given a matrix semantics. Reductions are compared on real runs only where every exact greedy choice is unique by more than the budget."),
 "C02": dict(
   cat="proof", technique="Lean 4 theorems (normal equations + injective sensor rows => coefficients recovered) over a certifying exact rational solver + differential against real predict + translator regenerating the dispatch of predict and both reconstruction formulas from the AST (reconProg = ReconProg.spec by decide; its evaluation with the certifying solvers is predictExact)",
   text="recon_exact / recon_exact_square / more_sensors_injective / independent_rows_injective prove that in-span signals are reproduced at every location whenever the selected rows have full column rank "
        "(for QR via C03's independence of greedy pivots); the exact model (which accepts a solution only after an exact multiplication check: solveExact_sound) must return the signal itself and the real predict is compared within a conditioning budget.",
   ref="DESIGN.md §5 C02",
   note="Generated/Recon.lean (harness/translate_recon.py): recon_predict, recon_predict_is_model – SSPOR.predict / _square_predict / _rectangular_predict as written are the model's predictExact (solve when n_sensors == n_modes, else lstsq; system = gathered sensor rows; result = basis times coefficients); any extra statement (cache, cast, shortcut, keyword) makes the site untranslatable. PARTIAL on the clause 'up to rounding error proportional to conditioning': IEEE-754 and LAPACK (gesv, gelsd) are not modelled; that clause is validated numerically (|error| <= 1e-7*(1+|x|)*kappa, kappa > 1e6 skipped and counted)."),
 "C07": dict(
   cat="proof", technique="Lean 4 theorems (least-squares optimality, interpolation, linearity, minimum-norm uniqueness from the normal equations) + differential against real predict incl. shapes + translator regenerating the dispatch of predict and both reconstruction formulas from the AST (reconProg = ReconProg.spec by decide; its evaluation with the certifying solvers is predictExact)",
   text="predict_in_span, predict_least_squares, predict_interpolates, predict_linear, predict_linear_minnorm, predictExact_rows; real predict on measurement arrays in/out of the span, 1-D and 2-D, n_sensors below/equal/above n_modes "
        "is compared with the exact model and checked for span membership, interpolation, superposition, shapes and 1-D/row-batch equality.",
   ref="DESIGN.md §5 C07",
   note="Generated/Recon.lean (harness/translate_recon.py): recon_predict, recon_predict_is_model – SSPOR.predict / _square_predict / _rectangular_predict as written are the model's predictExact (solve when n_sensors == n_modes, else lstsq; system = gathered sensor rows; result = basis times coefficients); any extra statement (cache, cast, shortcut, keyword) makes the site untranslatable. PARTIAL on rounding: LAPACK's contract (solution / minimum-norm least-squares solution) is a parameter; budget 1e-7*scale*kappa^2."),
 "C08": dict(
   cat="proof", technique="Lean 4 theorems about the selection model (sorted permutation, top-n maximality, prefix, threshold iff, default threshold vs Real.sqrt) + history differential with injected exact coefficient arrays + translator regenerating the four selection branches of update_sensors, the stored count and the default threshold of fit from the AST (selProg = SelProg.spec by decide; sel_* = topN / threshSel; default_threshold_den)",
   text="argsortDesc_perm/_sorted, topN_spec, topN_prefix, thresh_iff, thresh_antitone, thresh_zero_all, default_threshold_sq, update_count_ok, fit_count_ok, update_rejected_unchanged, updateRefused_count_ok (the count equals the selection even after a refit the classifier refuses – finding F16 is modelled as the code behaves), sspoc_run_countOk (the count law as an invariant over every history of accepted fits and accepted / rejected / refused updates); histories of fit/update_sensors on the real SSPOC "
        "(solver output and injected dyadic arrays with ties, zeros and boundary-equal thresholds) are compared with the Lean machine canonically (multiset of magnitudes).",
   ref="DESIGN.md §5 C08",
   note="Generated/Selection.lean (harness/translate_selection.py) ties topN / threshSel / the 2·r·c denominator to the source on every run; numpy's argsort (unstable) is modelled by the stable argsortDesc, ties compared canonically. The order of equal magnitudes is left free (numpy's argsort is not stable); the aggregation callable is a parameter whose four documented instances are compared with the model on exact inputs; sklearn solvers are parameters."),
 "C09": dict(
   cat="proof", technique="Lean 4 invariant over all call histories of a state machine with ghost 'trained-on' state + history differential + fresh-clone prediction oracle + translator regenerating the dispatch of SSPOC.predict, the training data and solver calls of fit and the refit block of update_sensors from the AST (clsProg = ClsProg.spec by decide; the dispatch evaluates to Sspoc.predictKind)",
   text="dispatch_consistent: after every history of fit(refit=T/F) / update_sensors(xy) / update_n_basis_modes the dispatch of predict matches what the classifier was last trained on; stale_flag_breaks_invariant shows the invariant "
        "fails on the unrepaired machine; real histories are compared with the machine after every call and predictions with sklearn.clone trained from scratch.",
   ref="DESIGN.md §5 C09",
   note="Generated/Classification.lean (harness/translate_classification.py): cls_pipeline, cls_predict_is_model. Holds on /repo after fix commits 8968a58 (stale refit_) and d275b97 (zero sensors). The classifier, solvers and basis numerics are parameters (only what they were trained on is tracked)."),
 "C10": dict(
   cat="other", technique="Lean 4 theorems that the checked certificates suffice (offset identity; KKT => group-lasso optimum) + numeric certification of scikit-learn's real output + translator regenerating the dispatch of SSPOC.predict, the training data and solver calls of fit and the refit block of update_sensors from the AST (clsProg = ClsProg.spec by decide; the dispatch evaluates to Sspoc.predictKind)",
   text="PARTIAL by nature: the minimisers are computed by scikit-learn (OrthogonalMatchingPursuit, MultiTaskLasso), which no executable model reproduces. Lean proves binary_offset(_spread) and group_lasso_kkt_sufficient; "
        "every real output is certified numerically (spread of Psi*s - w, support size, shapes, duality gap for alpha = l1_penalty, perturbation test, alpha read back from the solver object).",
   ref="DESIGN.md §5 C10",
   note="Generated/Classification.lean (harness/translate_classification.py): cls_pipeline, cls_predict_is_model. Solver correctness is trusted; certificates use 20x the solver's own tolerance; runs where MultiTaskLasso hits max_iter are skipped and counted."),
 "C11": dict(
   cat="proof", technique="Lean 4 theorems (column-prefix law, bound check, orthonormal => transpose is a left inverse and rank-<=k data reproduced, Gram-inverse left inverse, RP modes in the span of the examples) + exact/numeric differential on the real bases + translator regenerating what each basis stores at fit, what matrix_representation returns and how each inverse is formed (basesProg = BasesProg.spec by decide; the representation evaluates to takeCols)",
   text="takeCols_takeCols/_get/_shape, rep_rejects_gt, identity_exact, orthonormal_left_inverse, rank_k_reproduced, gram_pinv_left_inverse, rp_modes_in_span; real Identity/SVD/RandomProjection/Custom bases are checked bitwise for slicing, "
        "Identity, copy semantics and repeatability, numerically (1e-8) for orthonormality, reproduction and pinv.",
   ref="DESIGN.md §5 C11",
   note="Generated/Bases.lean (harness/translate_bases.py): bases_glue, bases_rep_is_takeCols – the method bodies must be exactly validation + the one modelled expression. PARTIAL on numerics: TruncatedSVD, GaussianRandomProjection and numpy.linalg.pinv are parameters whose contracts (orthonormal components, pinv) are validated numerically. Custom works after fix b442c2e."),
 "C12": dict(
   cat="proof", technique="Lean 4 theorems about exact rational shape predicates (filter in ranking order, in/out partition, closed-shape iffs, strictly-right-of-line, even-odd rule on rectangles) + translator regenerating every shape's constraint_function from the source AST into Lean with a kernel-checked equality to the model + exact differential with dyadic parameters",
   text="harness/translate_shapes.py re-derives on every run, from the current AST of _constraints.py (__init__ attribute definitions inlined), the expression each of the six constraint_function methods evaluates; lake re-checks shape_<Class> (regenerated expression = hand-written model for every parameter, loc, axis and point), "
        "indices_<Class> / loop_Polygon (lifting through translated_shape_indices / translated_polygon of Props/C12.lean). constraintIndices_mem/_sublist, in_out_partition, circle/cylinder/parabola/ellipse iffs, line_strictly_right, gridPt_spec, polygon_rectangle; all six real shape classes x loc on image grids and dataframes are compared with the model and an "
        "independent exact oracle, boundary points included (Ellipse/Polygon points within 1e-9 of the boundary excluded and counted).",
   ref="DESIGN.md §5 C12",
   note="Polygon: the even-odd rule as written is the specification (no Jordan-curve argument); the translator checks its loop skeleton on the AST and proves the edge condition. np.cos/np.sin of the rotation angle are the parameters cos/sin of the model (not modelled). get_constraint_indices' gather/filter and the coordinate look-up are tied by the differential only. Holds after fix 4aaa670 (Cylinder loc='in')."),
 "C13": dict(
   cat="proof", technique="Lean 4 theorems (box set/order via index transposition, half-open dataframe box, ravel/unravel inverse, module name of <identifier>.py for every identifier) + translator regenerating the membership tests of both box helpers from the source AST with kernel-checked equality to the model's filter conditions + exact differential incl. real temporary files",
   text="harness/translate_boxes.py re-derives on every run the loop conditions of get_constrained_sensors_indices / _dataframe (box_Box, box_DfBox; indices_Box lifts through translated_box to the model's boxIndices) and compares the statements around the loops with the modelled skeleton; box_order, transposeIdx_involutive, box_set, dfBox_mem, ravel_unravel, unravel_ravel, module_name_spec, module_name_old_wrong; the real helpers, UserDefinedConstraints (equation and file) and load_functional_constraints are executed on generated inputs and files.",
   ref="DESIGN.md §5 C13",
   note="Python eval/__import__, numpy unravel/ravel and pandas dropna are parameters. Holds after fix 215804b (.strip('.py'))."),
 "C14": dict(
   cat="proof", technique="Lean 4 theorems about a state-machine model of SSPOR (setters last-wins, ranking untouched) + history differential vs the real object and a fresh-model oracle + translator regenerating SSPOR.fit's post-optimizer statements and the reads of the ranking from the AST (Python slice arithmetic explicit), proved equal to tailShuffle / selectLead on every run",
   text="selected_eq_take, setN_preserves_ranking, setN_ok_iff, setN_rejected_unchanged, setters_last_wins, ctor_fit_eq_fit_set over all setter sequences; "
        "the machine's observable projection is compared with the real SSPOR after every call and the final state with a fresh model built with the final value.",
   ref="DESIGN.md §5 C14",
   note="Generated/Ranking.lean (harness/translate_ranking.py): pipe_ssporFit – the statements after the optimizer call are tailShuffle σ m for every ranking, mode count, sensor count and permutation oracle (seed must reach np.random.default_rng unmodified); selection_<method>_k – every slice of ranked_sensors_ in predict / get_selected_sensors is selectLead n_sensors. The optimizer ranking and basis entries are parameters of the machine (taken from the real run)."),
 "C15": dict(
   cat="proof", technique="Lean 4 theorems about the SSPOR state machine (fit reads settings only) + history differential over datasets of different shapes + from-scratch reference + translator regenerating the statement trees of SSPOR.update_n_basis_modes, SSPOR._validate_n_sensors, SSPOR.set_number_of_sensors and of SSPOR.fit up to the optimizer call from the AST (tree = spec by rfl; the spec trees evaluate to the machine's updateModes / validateN / setN for every state and argument)",
   text="fit_is_reset_partial / fit_after_history_is_reset (a successful fit's outcome depends only on the settings), fit_preserves_settings, update_modes_prefix, outside_basis_fit_keeps_model / update_after_outside_basis_fit / round_trip_is_identity (basis fitted behind the model's back, pickled copies); "
        "the Identity() default-mode freeze is proved as a witness on the model (identity_default_freezes) and listed as a known finding.",
   ref="DESIGN.md §5 C15",
   note="Holds on /repo after fix commits 63a46df, 8363b27. `_partial`: the settings relation compares the basis attribute n_basis_modes, which Identity() overwrites on its first fit (known finding F7)."),
 "C16": dict(
   cat="proof", technique="Lean 4 theorems about tailShuffle (lead and tail set independent of the rearrangement) + seed-pair differential on real SSPOR + translator regenerating SSPOR.fit's post-optimizer statements and the reads of the ranking from the AST (Python slice arithmetic explicit), proved equal to tailShuffle / selectLead on every run",
   text="lead_seed_independent, lead_untouched, tail_set_seed_independent, same_seed_same_ranking, no_tail_seed_irrelevant for every rearrangement family; "
        "real rankings across seeds are compared pairwise and against tailShuffle with numpy's permutation as the parameter.",
   ref="DESIGN.md §5 C16",
   note="Generated/Ranking.lean (harness/translate_ranking.py): pipe_ssporFit – the statements after the optimizer call are tailShuffle σ m for every ranking, mode count, sensor count and permutation oracle (seed must reach np.random.default_rng unmodified); selection_<method>_k – every slice of ranked_sensors_ in predict / get_selected_sensors is selectLead n_sensors. numpy's Generator.permutation is a parameter (a permutation, a function of the seed)."),
 "C17": dict(
   cat="proof", technique="Lean 4 theorems about the metric definitions (relative error identity, det(T^T T) >= 0, selection matrix = row gather, model determinant) + recomputation through the public API and exact rational determinant + translator regenerating the definitions of score / reconstruction_error / relative_reconstruction_error / determinant from the AST (metricsProg = MetricsProg.spec by decide; the determinant program evaluated with the exact determinant is determinantModel)",
   text="rel_error_identity, det_gram_nonneg, theta_eq_gather, determinantModel_nonneg, sqErr_self; real score / reconstruction_error / relative_reconstruction_error / determinant are compared with their definitions recomputed through public predict "
        "(on a copy with set_number_of_sensors(k)), custom score callables, and the exact determinant of the model.",
   ref="DESIGN.md §5 C17",
   note="Generated/Metrics.lean (harness/translate_metrics.py): metrics_definitions, metrics_determinant_is_model; the score / error formulas are compared structurally with the stated definitions (and recomputed numerically through the public predict), only the determinant dispatch has an evaluation in Lean. PARTIAL on rounding (budgeted). numpy.linalg.det/norm are parameters."),
 "C18": dict(
   cat="proof", technique="Lean 4 theorems (model run reads B only through its Gram matrix; Gram invariance under right-orthogonal mixing; simulation principle => invariance under positive rescaling; position-free characterisation of tie-free rankings => relabelling equivariance) + metamorphic pairs on the real optimizers and SSPOR",
   text="run_depends_on_gram_only, gram_mul_orthogonal, row_dot_mul_orthogonal, gram_eq_of_dots, greedy_simulation, scale_invariant, strict_ranking_unique, ranking_relabel_equivariant, run_without_ties_is_strict; real QR/CCQR/GQR(all options)/SSPOR runs are compared on exactly representable transforms "
        "(signed permutations, Pythagorean rotations, powers of two, sensor relabellings) where the exact choices are unique.",
   ref="DESIGN.md §5 C18",
   note="Relabelling can change the result exactly at ties (numpy's argmax is positional): the theorem and the comparison are for tie-free base runs; pairs with non-unique exact choices are skipped and counted."),
 "C19": dict(
   cat="proof", technique="Lean 4 theorems over all values of each invalid class for every guard / setter / update transition + guard decision trees REGENERATED from the current source by an AST translator, each proved equal to the model's guard function on every run + exhaustive execution of the entry-point x value-class x life-phase table on the real objects",
   text="sspor_ctor_spec, sspor_set_invalid/_unfitted, sspor_update_invalid/_needs_data/_too_many, sspoc_update_invalid/_neither/_unfitted, basisCtor_spec, basisRep_spec, predict_guard_spec, full_state_guard_spec, ccqr_costs_spec, gqr_option_spec, "
        "box_contradictory (+ setN_rejected_unchanged, update_rejected_unchanged, sspor_setter_is_its_guard, sspor_ctor_is_its_guard, sspoc_update_sensors_is_its_guard, box_guard_is_its_tree_spec); harness/translate_guards.py regenerates 23 guard trees from the source "
        "(theorems guard_<entry point> in Generated/Guards.lean, re-checked by lake and audited for axioms); harness/translate_effects.py regenerates the ORDER of state writes and explicit rejections of the setters (SSPOR.set_number_of_sensors / set_n_sensors with its callee inlined, SSPOC.update_sensors) as effect trees; "
        "atomic_<setter> (decide) + ETree.atomic_sound (induction over executions) give rejected_<setter>_writes_nothing: on every execution of the statements as written an explicit rejection precedes the first write; "
        "the table (about 780 cells) is executed on the real code, outcomes and before/after observables compared.",
   ref="DESIGN.md §5 C19",
   note="Holds after fix 3748913. One listed known finding: a fit/update on narrower data is rejected only after the basis was refitted (predictions change). Effect trees abstract conditions to choices and do not model exceptions raised implicitly by expressions (numpy, comparisons of unlike types) – the executed table covers those. The guard translator ignores statements that are not checks and does not follow callees; atoms are named by source text, so a renaming breaks the generated proof (reported as no-failing-input-found when the table finds nothing)."),
 "C20": dict(
   cat="proof", technique="Lean 4 soundness theorem for a may-alias check + obligations REGENERATED from the current source by an AST translator and re-checked by the kernel on every run + dynamic snapshot / read-only sweep",
   text="analysis_sound (proved once): check prog = true => along every execution no protected buffer is written. harness/translate_alias.py re-derives the alias program of every package function containing an in-place write from the AST on every run; "
        "`theorem safe_f : prog_f.check = true := by decide +kernel` is re-checked by lake. Every public entry point is also called with byte snapshots and read-only arrays.",
   ref="DESIGN.md §5 C20",
   note="Trusted: the translator's view/fresh/write table and the assumption that numpy/scipy/sklearn/pandas routines do not write their inputs (validated dynamically each run); flow-insensitive, name-based call resolution."),
}
NOT_YET = {}

def main():
    props = [json.loads(l) for l in open(os.path.join(HERE, "properties.jsonl"))]
    checks, na = [], []
    for p in props:
        pid = p["id"]
        if pid in CHECKS:
            c = CHECKS[pid]
            checks.append({
              "property_id": pid,
              "quick_cmd": f"./check {pid} --tier quick",
              "thorough_cmd": f"./check {pid} --tier thorough",
              "evidence_file": f"evidence/{pid}.json",
              "replay_cmd_template": f"./check {pid} --replay {{path}}",
              "engine": "psverif",
              "level_claimed": {"category": c["cat"], "text": c["text"], "design_ref": c["ref"]},
              "level_note": BASE_NOTE + c["note"],
              "technique": c["technique"],
            })
        else:
            na.append({"property_id": pid, "reason": NOT_YET.get(pid, "check not built yet in this round (model and theorems planned in DESIGN.md §5); not claimed until it runs")})
    baseline = json.load(open("/root/.vp/BASELINE.json"))["cmd"].replace(" --junitxml=<file>", "")
    m = {
      "version": 1,
      "setup_cmd": "./setup.sh",
      "hooks": {"guard": "PYSENSORS_VERIF", "enable": "none needed: per-step taps are installed by monkey-patching module attributes from the harness; no instrumentation commits in /repo",
                "baseline_off_cmd": baseline, "source_commits": [], "add_only": True},
      "engines": [{"name": "psverif", "path": "check", "serves_properties": [c["property_id"] for c in checks],
                   "kind_free_text": "Lean 4 models + theorems (lean/), compiled model driver, Python differential harness (harness/)"}],
      "checks": checks,
      "not_applicable": na,
      "notes": "See DESIGN.md. ./check <id> [--tier quick|thorough] [--replay file]; exit 2 = machinery error.",
    }
    json.dump(m, open(os.path.join(HERE, "MANIFEST.json"), "w"), indent=1)
    print(f"{len(checks)} checks, {len(na)} not_applicable")

main()
