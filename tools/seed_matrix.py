#!/venv/bin/python
"""Runs every registered quick check against every kept seeded change (scratch worktrees of /repo, never /repo itself)
and writes seeded/matrix.json: which checks raise an alarm on which change.  Development tool, not a registered check."""
import json, os, subprocess, sys, tempfile, shutil
from concurrent.futures import ThreadPoolExecutor
VERIF = os.path.dirname(os.path.dirname(os.path.abspath(__file__)))
PROPS = [f"C{i:02d}" for i in range(1, 21)]
seeds = sorted(d for d in os.listdir(os.path.join(VERIF, "seeded")) if os.path.isdir(os.path.join(VERIF, "seeded", d)))
only = sys.argv[1:] or seeds

def run_seed(sd):
    w = tempfile.mkdtemp(prefix=f"ps_mx_{sd}_")
    os.rmdir(w)
    subprocess.run(["git", "-C", "/repo", "worktree", "add", "-q", "--detach", w, "HEAD"], check=True)
    ev = tempfile.mkdtemp(prefix="ps_mx_ev_")
    lean = tempfile.mkdtemp(prefix="ps_mx_lean_"); os.rmdir(lean)
    shutil.copytree(os.path.join(VERIF, "lean"), lean, symlinks=True)      # generated Lean files are rewritten per mutant: private copy
    res = {}
    try:
        subprocess.run(["git", "-C", w, "apply", os.path.join(VERIF, "seeded", sd, "patch.diff")], check=True)
        for p in PROPS:
            env = dict(os.environ, PYSENSORS_REPO=w, VERIF_EVIDENCE_DIR=ev, VERIF_LEAN_DIR=lean)
            r = subprocess.run([os.path.join(VERIF, "check"), p], cwd=VERIF, env=env, capture_output=True, text=True)
            concrete = any(l.startswith("VIOLATION") and "no-failing-input-found" not in l for l in r.stdout.splitlines())
            res[p] = {"exit": r.returncode, "concrete": concrete}
    finally:
        subprocess.run(["git", "-C", "/repo", "worktree", "remove", "--force", w])
        shutil.rmtree(ev, ignore_errors=True)
        shutil.rmtree(lean, ignore_errors=True)
    return sd, res

out = {}
with ThreadPoolExecutor(max_workers=6) as ex:
    for sd, res in ex.map(run_seed, only):
        out[sd] = res
        print(sd, "caught by:", [p for p, v in res.items() if v["exit"] == 1], flush=True)
path = os.path.join(VERIF, "seeded", "matrix.json")
old = json.load(open(path)) if os.path.exists(path) else {}
old.update(out)
json.dump(old, open(path, "w"), indent=1, sort_keys=True)
