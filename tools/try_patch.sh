#!/bin/sh
# usage: tools/try_patch.sh <patch.diff> <Cxx> [Cxx ...]
# Applies the patch to a scratch worktree of /repo (never to /repo itself), runs the pinned tests there,
# then runs the named checks against it (PYSENSORS_REPO) and removes the worktree.
set -u
PATCH=$(readlink -f "$1"); shift
W=/tmp/ps_mut_$$
git -C /repo worktree add -q --detach "$W" HEAD || exit 2
cleanup() { git -C /repo worktree remove --force "$W" >/dev/null 2>&1; rm -rf "$W"; }
trap cleanup EXIT
if ! git -C "$W" apply "$PATCH"; then echo "PATCH DOES NOT APPLY"; exit 2; fi
( cd "$W" && /venv/bin/python -m pytest -q -p no:cacheprovider --timeout=900 --continue-on-collection-errors 2>&1 | tail -1 )
cd /verif
for P in "$@"; do
  PYSENSORS_REPO="$W" ./check "$P" ${VERIF_CHECK_ARGS:-} 2>&1 | grep -v "^KNOWN-FINDING" | tail -4
  echo "exit($P)=$?"
done
