#!/bin/sh
# usage: tools/sweep.sh <tier> <seed...>   — every check on the unchanged tree under several seeds; prints only anomalies
# (development / soak; run through `vp run -- sh -c './setup.sh && tools/sweep.sh quick 1 2 3'`)
TIER=$1; shift
for S in "$@"; do
  for P in C01 C02 C03 C04 C05 C06 C07 C08 C09 C10 C11 C12 C13 C14 C15 C16 C17 C18 C19 C20; do
    VERIF_SEED=$S ./check $P --tier $TIER > /tmp/sweep_$$.out 2>&1; rc=$?
    if [ $rc -ne 0 ]; then echo "ANOMALY seed=$S $P exit=$rc"; grep -v "^KNOWN-FINDING" /tmp/sweep_$$.out | tail -6; fi
  done
  echo "seed $S done"
done
rm -f /tmp/sweep_$$.out
