#!/bin/sh
# usage: tools/rebase_seed.sh <patch.diff> <old commit>  — rewrites the patch so that it applies to /repo HEAD (3-way via cherry-pick)
P=$(readlink -f "$1"); OLD=$2
W=/tmp/ps_rebase_$$
git -C /repo worktree add -q --detach "$W" "$OLD" || exit 2
trap 'git -C /repo worktree remove --force "$W" >/dev/null 2>&1' EXIT
cd "$W" && git apply "$P" || { echo "does not apply to $OLD"; exit 2; }
git -c user.name=b -c user.email=b@x commit -qam seed
S=$(git rev-parse HEAD)
git checkout -q --detach "$(git -C /repo rev-parse HEAD)"
if git -c user.name=b -c user.email=b@x cherry-pick -n "$S" >/dev/null 2>&1; then
  git diff --cached -- pysensors > "$P.new" && mv "$P.new" "$P" && echo "rebased $P"
else
  echo "CONFLICT in $P"; git diff --name-only --diff-filter=U; exit 1
fi
