#!/bin/sh
# usage: tools/verify_seed.sh <seed dir containing patch.diff and demo.py> <Cxx> [more checks]
# confirms: patch applies to /repo HEAD, pinned tests pass with it, demo fails with it and passes without; then runs checks.
set -u
D=$(readlink -f "$1"); shift
W=/tmp/ps_seedchk_$$
git -C /repo worktree add -q --detach "$W" HEAD || exit 2
cleanup() { git -C /repo worktree remove --force "$W" >/dev/null 2>&1; rm -rf "$W"; }
trap cleanup EXIT
( cd "$W" && /venv/bin/python "$D/demo.py" >/dev/null 2>&1 ); echo "demo_without=$?"
if ! git -C "$W" apply "$D/patch.diff"; then echo "PATCH DOES NOT APPLY"; exit 2; fi
( cd "$W" && /venv/bin/python -m pytest -q -p no:cacheprovider --timeout=900 --continue-on-collection-errors 2>&1 | tail -1 )
( cd "$W" && /venv/bin/python "$D/demo.py" >/dev/null 2>&1 ); echo "demo_with=$?"
cd /verif
for P in "$@"; do
  PYSENSORS_REPO="$W" ./check "$P" > /tmp/seedchk_$$.out 2>&1; rc=$?
  grep -v "^KNOWN-FINDING" /tmp/seedchk_$$.out | grep "^# C\|VIOLATION" | head -4
  echo "check($P) exit=$rc"
done
rm -f /tmp/seedchk_$$.out
